"""C37 Source factories emit their specified sequences (closed-form oracles on virtual time)."""
from __future__ import annotations

from collections import deque
from datetime import timedelta

from hypothesis import strategies as st

import reactivex

from vlib.core import FAIL, OK, SKIP, Check, HarnessError
from vlib.lab import Lab
from vlib.values import NAMES, Tagged, canon, val

PROPERTY_ID = "C37"
LEVEL = "exploration"
RULE = (
    "One factory call per case, subscribed by a recording probe at a generated virtual tick t0 (and, for re-iterable "
    "arguments, a second time at a later tick), with the virtual scheduler given to the factory (where it has a "
    "scheduler parameter), to subscribe(), or not at all (factories whose default scheduler is synchronous). "
    "range: start/stop/step incl. negative steps, empty and wrong-direction ranges, magnitudes up to 2**63, 1-/2-/3-"
    "argument forms -> list(range(...)); of/from_iterable over lists, tuples, deques, one-shot iterators, generators, "
    "strings, dict views of values from the shared value domain (None/0/False/''/()... included) -> list(iterable); "
    "iterables that fail (generator, hand-written iterator, re-iterable object raising from __next__ after k>=0 "
    "items; also through the from_/from_list aliases) -> those k items, then that exception as on_error, nothing "
    "escaping into the scheduler; "
    "return_value/empty/never/throw (exception object or message string); repeat_value(v, n>=0) -> [v]*n; "
    "generate(initial, condition, iterate) over a family of integer loop functions, optionally raising at the k-th "
    "call -> the equivalent while-loop (prefix then that exception); generate_with_relative_time with delay "
    "functions returning 0/0.5/1/2/3 as int, float or timedelta -> state i at t0 + sum of the delays of states 0..i; "
    "timer(d) for d int/float/timedelta/absolute datetime -> 0 at t0+d (or at d) then completion. Oracle: exact "
    "(tick, kind, type-tagged value) list incl. terminal, on the TestScheduler (float clock) or the HistoricalScheduler "
    "(datetime clock, 1 tick = 1 s); a run cut short by the lab's guards is still a violation when a subscriber has "
    "already received more elements than specified; for the synchronous factories every notification is at "
    "the subscription tick. Non-trivial: >=2 elements or a boundary parameter (empty range/iterable, n=0, zero "
    "delay, d=0, negative step, never). Cases reaching 90 actions at one instant are discarded as inconclusive. "
    "Distinct = distinct case JSON. long: range / from_iterable / repeat_value / generate with 99..2000 elements on "
    "the library's own TestScheduler / VirtualTimeScheduler / HistoricalScheduler (no lab; the schedulers are only "
    "subclassed to count enqueued items; the module constant MAX_SPINNING is set to its shipped value for the run "
    "and restored), (a) through TestScheduler.start(create) with the default 200/1000 window, (b) subscribed at clock "
    "0 next to reactivex.timer(T) on the same scheduler, either order. Oracle: all n values in order then exactly one "
    "on_completed; model of the spin guard as implemented on the unchanged tree - the clock is nudged by one unit "
    "(1 tick, or 1 ms on a datetime clock) at most once per MAX_SPINNING+1 consecutive same-instant dequeues and every "
    "nudge restarts the count - hence (i) every notification of the source lies within floor(E/(MAX_SPINNING+1)) units "
    "of the subscription instant, E = items enqueued during the run, and (ii) a timer due T>=1 units fires at exactly "
    "T (a source only schedules at the current instant, so the timer is the first item due at T and is dequeued with "
    "a fresh count right after the clock reaches T). Non-trivial (long): more than MAX_SPINNING+1 items enqueued."
)
ASSUMPTIONS = [
    "timer/generate_with_relative_time are never run on their default TimeoutScheduler (real threads); the virtual scheduler is always supplied",
    "the time of the completion/error of generate_with_relative_time is not part of the oracle (only that it follows the last element)",
    "negative delays/due times and timer(d, period) are outside the statement and not generated",
    "user functions raising: the equivalent while-loop raises at the same point, so the expected trace is the prefix followed by that exception",
    "a failing iterable: the statement fixes the items before the failure; that the failure itself arrives as on_error (and does not escape into "
    "the scheduler or leave the sequence unterminated) rests on the observable contract and from_iterable's own handling, as for generate",
]

LONGEST = 60

import reactivex.scheduler.virtualtimescheduler as _vts  # noqa: E402

# the shipped threshold, captured before any Lab() in this process overrides the module constant (Lab disables the nudge)
SHIPPED_MAX_SPINNING = _vts.MAX_SPINNING if _vts.MAX_SPINNING < 10**6 else 100


class _Inj(Exception):
    pass


# ---------------------------------------------------------------------------------------
# loop-function family (JSON specs -> pure functions)


def _cond(spec):
    k, a = spec
    if k == "lt":
        return lambda x: x < a
    if k == "gt":
        return lambda x: x > a
    if k == "abs_lt":
        return lambda x: abs(x) < a
    if k == "ne":
        return lambda x: x != a
    if k == "false":
        return lambda x: False
    raise HarnessError(f"cond {spec}")


def _iter(spec):
    k, a = spec
    if k == "add":
        return lambda x: x + a
    if k == "mul":
        return lambda x: x * a
    if k == "sq1":
        return lambda x: x * x + 1
    if k == "neg1":
        return lambda x: -x + (1 if x <= 0 else 0)  # 0,1,-1,2,-2,...
    raise HarnessError(f"iter {spec}")


def _delay_value(spec, x):
    return spec["vals"][x % len(spec["vals"])]


def _delay_native(spec, x):
    v = _delay_value(spec, x)
    rep = spec["rep"]
    if rep == "td":
        return timedelta(seconds=v)
    if rep == "float":
        return float(v)
    return v


def _ref_loop(case, with_delays=False):
    """The equivalent while-loop. -> (states, delays, terminal) terminal in {"C", ["E", tag]} or None if too long."""
    cond, it = _cond(case["cond"]), _iter(case["iter"])
    arm = case.get("raise")
    calls = {"cond": 0, "iter": 0, "tm": 0}

    def call(slot, f, x):
        k = calls[slot]
        calls[slot] = k + 1
        if arm is not None and arm[0] == slot and arm[1] == k:
            raise _Inj(f"inj:{slot}:{k}")
        return f(x)

    out, delays = [], []
    x = case["init"]
    try:
        while call("cond", cond, x):
            if with_delays:
                delays.append(call("tm", lambda s: _delay_value(case["delay"], s), x))
            out.append(x)
            if len(out) > LONGEST or abs(x) > 10**12:
                return None  # runaway loop: not generated (the strategy filters these out)
            x = call("iter", it, x)
    except _Inj as e:
        return out, delays, ["E", str(e)]
    return out, delays, "C"


# ---------------------------------------------------------------------------------------
# iterables


class _FailingIterator:
    """Hand-written iterator: yields items[:k], then its __next__ raises (not StopIteration)."""

    def __init__(self, items, k):
        self.items, self.k, self.i = items, k, 0

    def __iter__(self):
        return self

    def __next__(self):
        if self.i >= self.k:
            raise Tagged("iterfail")
        self.i += 1
        return self.items[self.i - 1]


class _FailingIterable:
    """Re-iterable: every iter() starts a fresh failing iterator (so a second subscription fails the same way)."""

    def __init__(self, items, k):
        self.items, self.k = items, k

    def __iter__(self):
        return _FailingIterator(self.items, self.k)


def _failing_gen(items, k):
    for x in items[:k]:
        yield x
    raise Tagged("iterfail")


FAILING = ("gen-raises", "iter-raises", "iterable-raises")


def _mk_iterable(kind, names, fail_at=None):
    if kind in FAILING:
        items = [val(n) for n in names]
        if kind == "gen-raises":
            return _failing_gen(items, fail_at)
        return (_FailingIterator if kind == "iter-raises" else _FailingIterable)(items, fail_at)
    if kind == "str":
        return "".join(names)
    items = [val(n) for n in names]
    if kind == "list":
        return items
    if kind == "tuple":
        return tuple(items)
    if kind == "deque":
        return deque(items)
    if kind == "iter":
        return iter(items)
    if kind == "gen":
        return (x for x in items)
    if kind == "dictvalues":
        return {i: x for i, x in enumerate(items)}.values()
    raise HarnessError(kind)


def _expected_items(kind, names):
    if kind == "str":
        return [canon(ch) for ch in "".join(names)]
    return [canon(val(n)) for n in names]


ONE_SHOT = ("iter", "gen", "gen-raises", "iter-raises")

# factories that accept scheduler=...; factories whose default scheduler is synchronous (usable with no scheduler)
HAS_SCHED_ARG = {"range", "from_iterable", "return_value", "empty", "throw", "timer"}
SYNC_DEFAULT = {"range", "from_iterable", "of", "return_value", "empty", "throw", "never", "generate", "repeat_value"}


# ---------------------------------------------------------------------------------------


def _build(case, lab):
    """-> (observable, expected) with expected = list of [dt|None, kind, canon] relative to the subscription tick
    (dt None = time not judged), or ("abs", tick) entries for absolute timer."""
    f = case["f"]
    kw = {"scheduler": lab.sched} if case["mode"] == "fac" else {}
    if f == "range":
        a, b, c, form = case["start"], case["stop"], case["step"], case["form"]
        if form == 3:
            o, exp = reactivex.range(a, b, c, **kw), list(range(a, b, c))
        elif form == 2:
            o, exp = reactivex.range(a, b, **kw), list(range(a, b))
        else:
            o, exp = reactivex.range(a, **kw), list(range(a))
        return o, [[0, "N", canon(x)] for x in exp] + [[0, "C", None]]
    if f in ("from_iterable", "of"):
        kind, names = case["iterable"], case["items"]
        if f == "of":
            o = reactivex.of(*[val(n) for n in names])
            exp = [canon(val(n)) for n in names]
        else:
            fac = getattr(reactivex, case.get("alias") or "from_iterable")  # from_ / from_list are documented aliases
            if kind in FAILING:
                # consuming the iterable fails after fail_at items: those items, then the failure as the terminal
                o = fac(_mk_iterable(kind, names, case["fail_at"]), **kw)
                exp = [canon(val(n)) for n in names[: case["fail_at"]]]
                return o, [[0, "N", x] for x in exp] + [[0, "E", ["exc", "iterfail"]]]
            o = fac(_mk_iterable(kind, names), **kw)
            exp = _expected_items(kind, names)
        return o, [[0, "N", x] for x in exp] + [[0, "C", None]]
    if f == "return_value":
        return reactivex.return_value(val(case["v"]), **kw), [[0, "N", canon(val(case["v"]))], [0, "C", None]]
    if f == "empty":
        return reactivex.empty(**kw), [[0, "C", None]]
    if f == "never":
        return reactivex.never(), []
    if f == "throw":
        if case["as"] == "exc":
            return reactivex.throw(Tagged(case["tag"]), **kw), [[0, "E", ["exc", case["tag"]]]]
        return reactivex.throw(case["tag"], **kw), [[0, "E", ["exc", "Exception", case["tag"]]]]
    if f == "repeat_value":
        v = val(case["v"])
        return reactivex.repeat_value(v, case["n"]), [[0, "N", canon(v)] for _ in range(case["n"])] + [[0, "C", None]]
    if f in ("generate", "gwrt"):
        ref = _ref_loop(case, with_delays=(f == "gwrt"))
        if ref is None:
            raise HarnessError(f"unbounded loop generated: {case}")
        states, delays, term = ref
        lab.arm = {case["raise"][0]: {case["raise"][1]}} if case.get("raise") else {}
        cond = lab.fn("cond", _cond(case["cond"]))
        it = lab.fn("iter", _iter(case["iter"]))
        tterm = [None, "C", None] if term == "C" else [None, "E", ["exc", term[1]]]
        if f == "generate":
            o = reactivex.generate(case["init"], cond, it)
            tterm[0] = 0
            return o, [[0, "N", canon(x)] for x in states] + [tterm]
        tm = lab.fn("tm", lambda s: _delay_native(case["delay"], s))
        o = reactivex.generate_with_relative_time(case["init"], cond, it, tm)
        exp, t = [], 0
        for x, d in zip(states, delays):
            t += d
            exp.append([t, "N", canon(x)])
        return o, exp + [tterm]
    if f == "timer":
        d, rep = case["d"], case["rep"]
        if rep == "abs":
            due = lab.sched.to_datetime(float(d))  # absolute tick d as the scheduler's datetime
            return reactivex.timer(due, **kw), [["abs", "N", ["int", 0]], ["abs", "C", None]]
        native = timedelta(seconds=d) if rep == "td" else (float(d) if rep == "float" else d)
        return reactivex.timer(native, **kw), [[d, "N", ["int", 0]], [d, "C", None]]
    raise HarnessError(f"factory {f}")


def _same_time(a, b):
    return abs(a - b) < 1e-9


def _compare(exp, got, t_sub, case):
    """None if equal, else (clause, message)."""
    if len(exp) != len(got):
        return "sequence", f"expected {len(exp)} notifications {[e[1:] for e in exp][:8]} got {len(got)}: {[g[1:3] for g in got][:8]}"
    for i, (e, g) in enumerate(zip(exp, got)):
        if e[1] != g[1] or e[2] != g[2]:
            return "sequence", f"notification #{i}: expected {e[1:]} got {g[1:3]}"
    for i, (e, g) in enumerate(zip(exp, got)):
        if e[0] is None:
            continue
        want = case["d"] if e[0] == "abs" else t_sub + e[0]
        if not _same_time(want, g[0]):
            return "time", f"notification #{i} {e[1:]}: expected at tick {want} (subscribed at {t_sub}) got {g[0]}"
    return None


def _run(case):
    f, mode = case["f"], case["mode"]
    if mode == "fac" and f not in HAS_SCHED_ARG:
        raise HarnessError(f"mode fac for {f}")
    if mode == "none" and f not in SYNC_DEFAULT:
        raise HarnessError(f"{f} without scheduler would run on real threads")
    clock = case.get("clock", "test")
    lab = Lab("hist", tick_s=1.0) if clock == "hist" else Lab()  # hist: HistoricalScheduler, datetime clock, 1 tick = 1 s
    o, exp = _build(case, lab)
    subs = [case["t0"]] + ([case["t0"] + case["gap"]] if case.get("gap") else [])
    probes = []
    for i, t in enumerate(subs):
        p = lab.probe(f"p{i}")
        probes.append(p)
        sch = "lab" if mode == "sub" else None
        lab.at(t, (lambda p=p: p.subscribe(o, scheduler=sch)))
    inc = lab.run()
    cls = [f"f:{f}", f"mode:{mode}", f"clock:{clock}"]
    if inc:
        # the run was cut short by the lab's guards; it is still a violation if a subscriber has by then already
        # received more elements than the specified sequence contains (e.g. a finite factory that never stops)
        want_n = sum(1 for e in exp if e[1] == "N")
        for p in probes:
            got_n = sum(1 for e in p.events if e[1] == "N")
            if got_n > want_n:
                return FAIL(f"sequence:more-than-specified|{f}", f"specified sequence has {want_n} elements, subscriber already received {got_n} when the run was stopped ({inc}); case={case}", classes=cls + ["overflow-detected"])
        return SKIP(inc)
    if lab.escaped is not None:
        e = lab.escaped
        return FAIL(f"escaped:{type(e).__name__}|{f}", f"{type(e).__name__}: {e} escaped into the scheduler; case={case}", classes=cls)
    nvals = sum(1 for e in exp if e[1] == "N")
    boundary = []
    if f == "range":
        if nvals == 0:
            boundary.append("empty-range")
        if case["form"] == 3 and case["step"] < 0:
            boundary.append("negative-step")
        if abs(case["start"]) > 2**31:
            boundary.append("huge-start")
    elif f in ("from_iterable", "of") and case.get("iterable") in FAILING:
        boundary.append("iterable-fails")
        cls.append(f"iterable-fails:{case['iterable']}")
        if case["fail_at"] == 0:
            cls.append("iterable-fails:before-first-item")
    elif f in ("from_iterable", "of") and nvals == 0:
        boundary.append("empty-iterable")
    elif f == "repeat_value" and case["n"] == 0:
        boundary.append("repeat-0")
    elif f == "gwrt":
        ds = [e[0] for e in exp if e[1] == "N"]
        if any(b == a for a, b in zip([0] + ds, ds)):
            boundary.append("zero-delay")
        if case["delay"]["rep"] == "td":
            boundary.append("timedelta-delay")
    elif f == "timer" and (case["d"] == 0 or (case["rep"] == "abs" and case["d"] == case["t0"])):
        boundary.append("timer-due-now")
    elif f == "never":
        boundary.append("never")
    if f in ("generate", "gwrt"):
        if case.get("raise") and exp[-1][1] == "E":
            boundary.append("user-function-raised")
        if nvals == 0:
            boundary.append("empty-loop")
    if len(subs) > 1:
        cls.append("resubscribed")
    if any(e[0] >= 86400 for p in probes for e in p.events):
        cls.append("timeline-beyond-one-day")
    cls += ["b:" + b for b in boundary]
    for p, t_sub in zip(probes, subs):
        okg, msg = p.grammar_ok()
        if not okg:
            return FAIL(f"grammar|{f}", f"{msg}; case={case}", classes=cls)
        bad = _compare(exp, p.events, t_sub, case)
        if bad:
            which = "" if p is probes[0] else ":second-subscription"
            return FAIL(f"{bad[0]}{which}|{f}", f"{bad[1]}; case={case}", classes=cls)
    return OK(nvals >= 2 or bool(boundary), cls)


# ---------------------------------------------------------------------------------------
# strategies

_t0 = st.sampled_from([0, 1, 5, 200, 200, 100000])  # 100000: past the first day of the virtual clock
_names = st.sampled_from(NAMES)
_BIG = [2**31, 2**63 - 1, 2**63, 10**9, -(2**31), -(2**63), -(10**9)]


def _modes(f, draw):
    ms = ["sub"]
    if f in HAS_SCHED_ARG:
        ms.append("fac")
    if f in SYNC_DEFAULT:
        ms.append("none")
    return draw(st.sampled_from(ms))


@st.composite
def _range_case(draw):
    start = draw(st.one_of(st.integers(-20, 20), st.sampled_from(_BIG)))
    form = draw(st.sampled_from([3, 3, 3, 3, 2, 1]))
    if form == 1:
        start = draw(st.integers(-5, 40))
        return {"f": "range", "start": start, "stop": None, "step": None, "form": 1}
    step = 1 if form == 2 else draw(st.sampled_from([1, 1, 2, 3, 7, -1, -1, -2, -3, -7, 10**9, -(10**9), 2**63]))
    n = draw(st.integers(0, 40))
    shape = draw(st.sampled_from(["exact", "exact", "short", "wrong-side", "equal"]))
    sgn = 1 if step > 0 else -1
    if shape == "exact":
        stop = start + step * n
    elif shape == "short":  # stop falls strictly inside the last stride
        stop = start + step * n - sgn * draw(st.integers(0, max(0, min(abs(step) - 1, 5))))
    elif shape == "wrong-side":
        stop = start - sgn * draw(st.integers(1, 30))
    else:
        stop = start
    return {"f": "range", "start": start, "stop": stop, "step": None if form == 2 else step, "form": form}


@st.composite
def _iter_case(draw):
    f = draw(st.sampled_from(["from_iterable", "from_iterable", "of"]))
    items = draw(st.lists(_names, min_size=0, max_size=8))
    kind = "list" if f == "of" else draw(st.sampled_from(["list", "tuple", "deque", "iter", "gen", "dictvalues", "str"]))
    if kind == "str":
        items = draw(st.lists(st.sampled_from(["a", "b", "", "xy", "0"]), min_size=0, max_size=6))
    c = {"f": f, "iterable": kind, "items": items}
    if f == "from_iterable":
        c["alias"] = draw(st.sampled_from(["from_iterable", "from_iterable", "from_", "from_list"]))
        if draw(st.integers(0, 3)) == 0:  # the iterable fails (raises from __next__) after fail_at items
            if kind == "str":
                c["items"] = items = draw(st.lists(_names, min_size=0, max_size=8))
            c["iterable"] = draw(st.sampled_from(list(FAILING)))
            c["fail_at"] = draw(st.one_of(st.integers(0, len(items)), st.just(len(items))))
    return c


@st.composite
def _simple_case(draw):
    f = draw(st.sampled_from(["return_value", "empty", "never", "throw", "repeat_value", "repeat_value"]))
    c = {"f": f}
    if f in ("return_value", "repeat_value"):
        c["v"] = draw(_names)
    if f == "repeat_value":
        c["n"] = draw(st.one_of(st.integers(0, 5), st.integers(0, 25)))
    if f == "throw":
        c["as"] = draw(st.sampled_from(["exc", "str"]))
        c["tag"] = draw(st.sampled_from(["boom", "", "e1"]))
    return c


_cond_spec = st.one_of(
    st.tuples(st.just("lt"), st.integers(-3, 12)),
    st.tuples(st.just("gt"), st.integers(-12, 3)),
    st.tuples(st.just("abs_lt"), st.integers(0, 12)),
    st.tuples(st.just("ne"), st.integers(-6, 6)),
    st.tuples(st.just("false"), st.just(0)),
).map(list)
_iter_spec = st.one_of(
    st.tuples(st.just("add"), st.sampled_from([1, 1, 2, 3, -1, -2, 0])),
    st.tuples(st.just("mul"), st.sampled_from([2, 3, -2, 1])),
    st.tuples(st.just("sq1"), st.just(0)),
    st.tuples(st.just("neg1"), st.just(0)),
).map(list)
_delay_spec = st.fixed_dictionaries(
    {
        "vals": st.lists(st.sampled_from([0, 0, 1, 1, 2, 3, 0.5]), min_size=1, max_size=4),
        "rep": st.sampled_from(["int", "float", "td"]),
    }
)


@st.composite
def _loop_case(draw):
    f = draw(st.sampled_from(["generate", "gwrt", "gwrt"]))
    init = draw(st.integers(-4, 4))
    it = draw(_iter_spec)
    if draw(st.integers(0, 3)) == 0:
        cond = draw(_cond_spec)  # unrelated to the start value: mostly empty or one-element loops
    else:
        off = draw(st.integers(0, 10))
        kind = draw(st.sampled_from(["lt", "gt", "abs_lt", "ne"]))
        if kind == "lt":
            cond = ["lt", init + off]
        elif kind == "gt":
            cond = ["gt", init - off]
        elif kind == "abs_lt":
            cond = ["abs_lt", abs(init) + off]
        else:  # the off-th state of the loop, so the loop runs exactly until it reaches it
            x = init
            for _ in range(off):
                x = _iter(it)(x)
                if abs(x) > 10**6:
                    break
            cond = ["ne", x]
    c = {"f": f, "init": init, "cond": cond, "iter": it}
    if f == "gwrt":
        c["delay"] = draw(_delay_spec)
    slots = ["cond", "iter"] + (["tm"] if f == "gwrt" else [])
    c["raise"] = draw(st.one_of(st.none(), st.none(), st.none(), st.tuples(st.sampled_from(slots), st.integers(0, 4)).map(list)))
    return c


def _bounded(c):
    ref = _ref_loop(c, with_delays=(c["f"] == "gwrt"))
    return ref is not None and len(ref[0]) <= (40 if c["f"] == "generate" else 25)


@st.composite
def _timer_case(draw):
    rep = draw(st.sampled_from(["int", "float", "td", "abs"]))
    d = draw(st.sampled_from([0, 0, 1, 2, 3, 10, 0.5, 2.5, 250, 90000]))
    if rep == "int" and d != int(d):
        rep = "float"
    return {"f": "timer", "d": d, "rep": rep}


@st.composite
def _case(draw):
    c = draw(st.one_of(_range_case(), _range_case(), _iter_case(), _simple_case(), _loop_case().filter(_bounded), _loop_case().filter(_bounded), _timer_case()))
    c = dict(c)
    c["mode"] = _modes(c["f"], draw)
    c["clock"] = draw(st.sampled_from(["test", "test", "hist"]))
    c["t0"] = draw(_t0)
    if c.get("rep") == "abs":
        c["d"] = c["t0"] + c["d"]  # absolute due tick, never before the subscription
    one_shot = c.get("iterable") in ONE_SHOT
    no_resub = one_shot or c.get("raise") or c.get("rep") == "abs"  # an absolute due time is already past for a later subscriber
    c["gap"] = None if no_resub else draw(st.sampled_from([None, 1, 7]))
    return c


# ---------------------------------------------------------------------------------------
# long synchronous sources on the library's own virtual-time schedulers (spin-guard region)


def _counting(base):
    class Counting(base):
        __test__ = False
        enqueued = 0

        def schedule_absolute(self, duetime, action, state=None):
            self.enqueued += 1
            return super().schedule_absolute(duetime, action, state)

    Counting.__name__ = "Counting" + base.__name__
    return Counting


def _long_source(spec):
    f, n = spec["f"], spec["n"]
    if f == "range":
        a, st_ = spec["start"], spec["step"]
        stop = a + st_ * n
        return reactivex.range(a, stop, st_), list(range(a, stop, st_))
    if f == "from_iterable":
        return reactivex.from_iterable(list(range(n))), list(range(n))
    if f == "repeat_value":
        return reactivex.repeat_value("v", n), ["v"] * n
    if f == "generate":
        return reactivex.generate(0, lambda x: x < n, lambda x: x + 1), list(range(n))
    raise HarnessError(f"long source {spec}")


def _units(sched, clock):
    """Clock value in nudge units since the zero clock (1 tick; 1 ms on a datetime clock)."""
    from datetime import datetime as _dt

    from reactivex.internal.constants import UTC_ZERO

    if isinstance(clock, _dt):
        return (clock - UTC_ZERO) / timedelta(microseconds=1000)
    return float(clock)


def _run_long(case):
    from reactivex.scheduler import HistoricalScheduler, VirtualTimeScheduler
    from reactivex.testing import TestScheduler

    saved = _vts.MAX_SPINNING
    _vts.MAX_SPINNING = SHIPPED_MAX_SPINNING
    try:
        return _run_long_inner(case, {"test": TestScheduler, "virtual": VirtualTimeScheduler, "historical": HistoricalScheduler})
    finally:
        _vts.MAX_SPINNING = saved


def _run_long_inner(case, bases):
    M = SHIPPED_MAX_SPINNING
    spec, form = case["src"], case["form"]
    f = spec["f"]
    sched = _counting(bases[case["sched"]])()
    o, want = _long_source(spec)
    cls = [f"f:{f}", f"form:{form}", f"sched:{case['sched']}"]
    src, tim = [], []  # [units, kind, value]
    if form == "window":
        res = sched.start(lambda: o)
        src = [[float(m.time), m.value.kind, getattr(m.value, "value", None)] for m in res.messages]
        t_sub = 200.0
    else:
        T = case["T"]
        unit_s = 0.001 if case["sched"] == "historical" else 1.0

        def sub_timer():
            reactivex.timer(T * unit_s).subscribe(
                lambda v: tim.append([_units(sched, sched.clock), "N", v]),
                lambda e: tim.append([_units(sched, sched.clock), "E", e]),
                lambda: tim.append([_units(sched, sched.clock), "C", None]),
                scheduler=sched,
            )

        def sub_source():
            o.subscribe(
                lambda v: src.append([_units(sched, sched.clock), "N", v]),
                lambda e: src.append([_units(sched, sched.clock), "E", e]),
                lambda: src.append([_units(sched, sched.clock), "C", None]),
                scheduler=sched,
            )

        for g in (sub_timer, sub_source) if case["order"] == "timer-first" else (sub_source, sub_timer):
            g()
        sched.start()
        t_sub = 0.0
    E = sched.enqueued
    if E > M + 1:
        cls.append("spin-guard-region")
    vals = [m[2] for m in src if m[1] == "N"]
    term = [m for m in src if m[1] != "N"]
    if vals != want or [type(v) for v in vals] != [type(v) for v in want]:
        k = next((i for i, (x, y) in enumerate(zip(vals, want)) if x != y), min(len(vals), len(want)))
        return FAIL(f"long:values|{f}", f"{f} with {len(want)} elements delivered {len(vals)} values (first difference at #{k}); case={case}", classes=cls)
    if len(term) != 1 or term[0][1] != "C" or src[-1][1] != "C":
        return FAIL(f"long:no-completion|{f}", f"{f} with {len(want)} elements: terminal notifications {[m[:2] for m in term]}; case={case}", classes=cls)
    bound = t_sub + E // (M + 1)
    late = [m for m in src if not (t_sub - 1e-9 <= m[0] <= bound + 1e-9)]
    if late:
        return FAIL(f"long:clock-drift|{f}", f"{f}: notification {late[0][:2]} at {late[0][0]} but the spin guard allows at most {E}//{M + 1} nudges after {t_sub} (bound {bound}); last notification at {src[-1][0]}; case={case}", classes=cls)
    if form == "timer":
        exp = [[float(case["T"]), "N", 0], [float(case["T"]), "C", None]]
        got = [[m[0], m[1], m[2]] for m in tim]
        if [g[1:] for g in got] != [e[1:] for e in exp]:
            return FAIL("long:timer-sequence|timer", f"timer({case['T']} units) next to {f}: got {got}; case={case}", classes=cls)
        if any(abs(g[0] - e[0]) > 1e-6 for g, e in zip(got, exp)):
            return FAIL("long:timer-late|timer", f"timer due at {case['T']} units next to {f} ({len(want)} elements) fired at {got[0][0]}; case={case}", classes=cls)
        if src[-1][0] >= case["T"]:
            cls.append("source-still-running-when-timer-due")
    return OK(E > M + 1, cls)


@st.composite
def _long_case(draw):
    f = draw(st.sampled_from(["range", "range", "generate", "repeat_value", "from_iterable"]))
    n = draw(st.one_of(st.integers(99, 104), st.integers(100, 2000), st.sampled_from([202, 203, 450, 600, 930, 950, 1000, 2000])))
    if f == "repeat_value":
        n = min(n, 1000)
    spec = {"f": f, "n": n}
    if f == "range":
        spec["start"] = draw(st.sampled_from([0, 0, 2000, -5]))
        spec["step"] = draw(st.sampled_from([1, 1, 2, -1, -2]))
    form = draw(st.sampled_from(["window", "timer", "timer"]))
    c = {"form": form, "src": spec, "sched": "test"}
    if form == "timer":
        c["sched"] = draw(st.sampled_from(["test", "virtual", "historical"]))
        c["T"] = draw(st.sampled_from([1, 2, 3, 5, 5, 9, 20, 50]))
        c["order"] = draw(st.sampled_from(["timer-first", "source-first"]))
    return c



def _regress(tier):
    # the zero-delay shapes of the (fixed) generate_with_relative_time finding, kept as enumerated regressions
    for rep in ("int", "float", "td"):
        for vals in ([0], [0, 1], [1, 0, 0]):
            yield {"f": "gwrt", "init": 0, "cond": ["lt", 3], "iter": ["add", 1], "delay": {"vals": vals, "rep": rep}, "raise": None, "mode": "sub", "t0": 5, "gap": None}


def checks(tier):
    return [
        Check("zero-delay", _run, cases=_regress, shards={"quick": 1, "thorough": 1}, exhaustive=True),
        Check("long", _run_long, strategy=_long_case(), examples={"quick": 400, "thorough": 16 * 1500}, shards={"quick": 2, "thorough": 16}),
        Check("factories", _run, strategy=_case(), examples={"quick": 6000, "thorough": 16 * 30000}, shards={"quick": 4, "thorough": 16}),
    ]
