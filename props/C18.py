"""C18 Windows and buffers partition the source correctly."""
from __future__ import annotations

from hypothesis import strategies as st

from reactivex import operators as ops

from vlib import refwin
from vlib.core import FAIL, OK, SKIP, Check
from vlib.lab import Lab, timelines
from vlib.values import NAMES, canon, stable_hash, val

PROPERTY_ID = "C18"
LEVEL = "exploration"
RULE = (
    "Cases: one logged virtual-time source (cold / hot / synchronous-at-0, conforming timeline of <=8 elements from the "
    "value domain V with same-instant bursts, ending in completion, error or never), subscribed at tick 0, 2 or 3, and one "
    "window rule: count (count/skip 1..6 and skip=None: exhaustively enumerated for 0..12 elements x {C,E,never} x two "
    "spacings, plus generated timelines), time (timespan 1..6, timeshift None/1..8: overlapping, tumbling, gapped; number "
    "or timedelta arguments on TestScheduler / HistoricalScheduler; scheduler passed as argument or via subscribe), "
    "time-or-count, boundary observable (cold/hot, may complete), closing selector (window_when, 1..3 closing timelines "
    "used round-robin, firing by element or by completion, dt 0..6 or never), toggle (openings timeline + closing mapper "
    "keyed on the opening value) and group_join itself (left/right durations).  The probe subscribes to every window at "
    "the instant it is emitted.  Every case is run twice: window_* and the matching buffer_*.  Oracle: count windows by "
    "closed form (window k = elements k*skip .. k*skip+count-1 with their ticks, closed at its last element or by the "
    "source terminal; one empty trailing window tolerated); every other rule by an independent reference simulation "
    "(vlib/refwin.py: open/close instants from the rule, each element delivered to exactly the windows open at its "
    "instant in arrival order, all open windows and the outer sequence end with the source terminal at its instant); a "
    "rule event at exactly the instant of source notifications may be ordered before or after them, but one way for the "
    "whole burst (all combinations enumerated, observation must equal one).  Buffers: the buffer_* trace must equal "
    "[(window end tick, window contents) for every window of the window_* run that completed, in completion order] plus "
    "the corresponding terminal.  group_join is judged on its documented duration semantics (a left window receives the "
    "right values whose duration overlaps it: those alive when it opens, in arrival order, and those arriving while it is "
    "open).  Second subscription: in about a third of the generated cases (and for every count/skip with <=7 elements in "
    "the enumeration) the SAME built observable is subscribed a second time, either after everything of the first "
    "subscription has happened or overlapping it 1..4 ticks later; each subscription is judged by the same reference from "
    "its own subscribe tick (window_when then uses a single closing timeline because the round-robin counter is per "
    "observable); failures of the second subscription carry the signature suffix ':2nd-subscription'.  "
    "Gap round: generated count/skip also 7, 8, 9, 12 (thorough enumeration up to 9, sources up to 12 elements); "
    "fractional timespan/timeshift (x.5 ticks), timedelta arguments on the TestScheduler, HistoricalScheduler also for the "
    "boundary / closing-selector / toggle rules; and, for time and time-or-count, an operator scheduler whose cancellation "
    "of relative timers is ineffective (scheduler docs: cancellation is best effort), under which the same reference must "
    "hold (a cancelled window timer that fires anyway must not open or close anything).  "
    "Round 4: (i) half of the non-group_join generated cases put take(k), k in 1..3, on the "
    "window-of-windows sequence, so the outer subscription ends at the emission of the k-th window while windows are still "
    "observed; the first k windows must still have exactly the contents and the end their rule dictates (reference "
    "truncated to k windows, outer completion at the k-th window's emission; no buffer differential for these cases); "
    "(ii) a third of the closing / left-duration observables are reactivex.timer(dt) built without a scheduler, which "
    "must run on the scheduler the pipeline was subscribed with.  "
    "Round 5: a quarter of the toggle closings / group_join left durations fire synchronously inside their own subscribe "
    "call whatever scheduler is passed (a logged source emitting at subscribe, like an already completed Subject or a "
    "BehaviorSubject): the window's rule says close immediately, so it must be a zero-length window closed at the instant "
    "it opens (as for dt=0 it may or may not straddle the source burst of that very instant).  "
    "Non-trivial: >=2 windows with >=1 element each (first subscription).  Distinct = distinct case JSON."
)
ASSUMPTIONS = [
    "same-instant order of a rule event and the source burst is unspecified: either is accepted, consistently per rule event for the whole burst",
    "window(boundaries): completion of the boundaries ends the current window and the outer sequence (pinned by repository tests test_window_close_boundaries)",
    "window_toggle: completion of the openings ends the outer sequence only (pinned by test_window_toggle_basic); what happens after the source's completion is not judged except that windows open at that instant must end there (property text)",
    "closing / duration / boundary / openings observables never error (not part of the property statement)",
    "buffer_with_count drops empty buffers (its implementation filters them), so empty lists are ignored on both sides for the count form only",
    "disposing a scheduled timer is best effort (documented on every schedule_* method): with the case flag nocancel a timer the operator cancels at its own due instant (it has fired and cannot be recalled) still runs, while one cancelled earlier is cancelled for good; the window rule is still required to hold",
    "an emitted, observed window follows its rule whether or not the outer window-of-windows subscription is still alive (the statement ties a window's contents and end to its rule only)",
    "cases reaching the lab's same-instant spin guard or the work budget are discarded as inconclusive",
]

INNER = {"mode": "now"}

# Property text: "all open windows end with the source's terminal kind" for every listed rule, toggle included.
# window_toggle (built on group_join) does not do that for a *completion* (signature
# "toggle:open-window-outlives-source-completion|window_toggle", proposed_fixes/C18-window-toggle-source-completion.diff).
# Every other toggle clause is judged independently of it; the deviation is recognised by re-running the reference
# simulation with group_join's behaviour, so that any *other* toggle failure keeps its own signature.
TOGGLE_SOURCE_COMPLETION_ENDS_WINDOWS = True


# ------------------------------------------------------------------------------------------------
# helpers


def _effective(spec, sub):
    """The absolute timeline a subscriber arriving at `sub` observes (hot sources are created before the
    scheduled subscription action, so their notifications at exactly `sub` > 0 are missed)."""
    tl = spec["tl"]
    if spec["kind"] in ("cold", "sync"):
        return [[t + sub, k, p] for t, k, p in tl]
    return [[t, k, p] for t, k, p in tl if (t >= 0 if sub == 0 else t > sub)]


def _canon_src(tl):
    return [[t, k, canon(val(p)) if k == "N" else p] for t, k, p in tl]


def _int_src(tl):
    return [[t, k, val(p) if k == "N" else p] for t, k, p in tl]


def _span(case):
    """Ticks after a subscription within which everything of interest to it has happened."""
    h = 0
    for key in ("src", "b", "o", "left"):
        if key in case:
            for m in case[key]["tl"]:
                h = max(h, m[0])
    extra = 2
    for key in ("span", "shift"):
        if case.get(key):
            extra += case[key]
    for key in ("closings", "ldur", "rdur"):
        for c in case.get(key, ()):
            if isinstance(c["dt"], (int, float)):
                extra = max(extra, c["dt"] + 2)
    return h + extra + 2


def _subs(case):
    """Subscribe ticks: the first subscription and, with case["resub"], a second subscription of the SAME built
    observable - after everything of the first has happened ("after") or overlapping it ("overlap", `at` ticks later)."""
    sub = case.get("sub", 0)
    r = case.get("resub")
    if not r:
        return [sub]
    if r["mode"] == "after":
        return [sub, sub + _span(case) + 1]
    return [sub, sub + r["at"]]


def _horizon(case):
    return max(_subs(case)) + _span(case)


def _closing_obs(lab, c):
    if c["dt"] is None:
        return lab.cold([])
    if c["dt"] == "sync" and c.get("kind") in ("N", "C") and c.get("hard"):
        # fires synchronously INSIDE its subscribe call, whatever scheduler is passed (like an already completed
        # Subject or a BehaviorSubject): the window's rule says "close immediately"
        return lab.cold([[0, c["kind"], "i0" if c["kind"] == "N" else None]], sync=True)
    if c["dt"] == "sync":
        import reactivex

        return reactivex.empty()
    if c.get("via") == "timer":
        # time-based closing built WITHOUT an explicit scheduler (docs: window_when(lambda: reactivex.timer(0.5))):
        # it runs on the scheduler the pipeline was subscribed with
        import reactivex

        return reactivex.timer(lab.rel(c["dt"]))
    return lab.cold([[c["dt"], c.get("kind", "N"), "i0" if c.get("kind", "N") == "N" else None]])


class _BestEffortCancel:
    """The lab scheduler with *best effort* cancellation of relative timers, as every schedule_* docstring words it:
    a real timer that has already fired (and is, say, waiting for the operator's lock) cannot be recalled.  A timer the
    operator cancels *before* its due instant is cancelled for good, exactly as with a real timer; a timer cancelled
    *at* its due instant (by another action of that same instant) still runs.  The window rule must not depend on
    the latter being recalled.  Only the operator's own timers go through this wrapper."""

    def __init__(self, lab):
        self._lab = lab
        self.fired_after_cancel = 0

    def __getattr__(self, name):
        return getattr(self._lab.sched, name)

    def schedule_relative(self, duetime, action, state=None):
        from reactivex.disposable import Disposable

        sched = self._lab.sched
        lab = self._lab
        due = lab.now() + sched.to_seconds(duetime) / (lab.tick_s if lab.clock_kind == "hist" else 1)
        flag = {"cancelled": False}

        def run(sched_, st_=None):
            if flag["cancelled"]:
                self.fired_after_cancel += 1
            return action(sched_, st_)

        inner = sched.schedule_relative(duetime, run, state)

        def cancel():
            flag["cancelled"] = True
            if lab.now() < due - 1e-9:
                inner.dispose()

        return Disposable(cancel)


def _op_scheduler(lab, case):
    if case.get("nocancel"):
        lab.nocancel = _BestEffortCancel(lab)
        return lab.nocancel
    return lab.sched if case.get("sched_arg") else None


def _t(lab, case, x):
    """A relative time argument: the clock's native form, or (td_args) a timedelta on the TestScheduler too."""
    if case.get("td_args") and lab.clock_kind == "test":
        from datetime import timedelta

        return timedelta(seconds=x)
    return lab.rel(x)


def _operator(lab, case, variant, marks):
    f = case["form"]
    W = variant == "window"
    if f == "count":
        return (ops.window_with_count if W else ops.buffer_with_count)(case["count"], case["skip"])
    if f == "time":
        span = _t(lab, case, case["span"])
        shift = _t(lab, case, case["shift"]) if case["shift"] else None
        sch = _op_scheduler(lab, case)
        return (ops.window_with_time if W else ops.buffer_with_time)(span, shift, sch)
    if f == "toc":
        sch = _op_scheduler(lab, case)
        return (ops.window_with_time_or_count if W else ops.buffer_with_time_or_count)(_t(lab, case, case["span"]), case["count"], sch)
    if f == "boundary":
        b = lab.source(case["b"], "b")
        return (ops.window if W else ops.buffer)(b)
    if f == "when":
        cl = case["closings"]
        mapper = lab.fn("closing", lambda: _closing_obs(lab, cl[(lab.cb_count["closing"] - 1) % len(cl)]))
        return (ops.window_when if W else ops.buffer_when)(mapper)
    if f == "toggle":
        o = lab.source(case["o"], "o")
        cl = case["closings"]
        mapper = lab.fn("closing", lambda v: _closing_obs(lab, cl[v % len(cl)]))
        return (ops.window_toggle if W else ops.buffer_toggle)(o, mapper)
    raise AssertionError(f)


def _execute(case, variant):
    clock = case.get("clock", "test")
    lab = Lab(clock, tick_s=1.0)
    marks = []  # seq of each source terminal, in order (subscription i terminates i-th: same timeline, later start)
    src = lab.source(case["src"], "src")
    source = src
    if case["form"] == "toggle":

        def mark(*_):
            marks.append(lab.next_seq())

        source = src.pipe(ops.do_action(on_error=mark, on_completed=mark))
    obs = source.pipe(_operator(lab, case, variant, marks))
    if case.get("take") and variant == "window":
        # the outer window-of-windows subscription ends early (downstream take(k)) while windows are still observed
        obs = obs.pipe(ops.take(case["take"]))
    probes = _subscribe_all(lab, case, obs)
    lab.run(until=_horizon(case))
    if lab.escaped is not None:
        raise lab.escaped
    return lab, probes, marks


def _subscribe_all(lab, case, obs):
    """One probe per subscribe tick, all on the same observable object."""
    probes = []
    for i, s in enumerate(_subs(case)):
        p = lab.probe("p" if i == 0 else f"q{i}", inner=INNER)
        probes.append(p)
        if s == 0:
            p.subscribe(obs)
        else:
            lab.at(s, lambda p=p: p.subscribe(obs))
    return probes


def _observe(p):
    outer_n = [e for e in p.events if e[1] == "N"]
    wins = []
    for e, ip in zip(outer_n, p.inners):
        t = ip.terminal()
        wins.append(
            {
                "open": e[0],
                "items": [[x[0], x[2]] for x in ip.events if x[1] == "N"],
                "end": [t[0], t[1], t[2]] if t else None,
                "oseq": e[3],
                "eseq": t[3] if t else None,
            }
        )
    ot = p.terminal()
    return {"wins": wins, "outer_end": [ot[0], ot[1], ot[2]] if ot else None, "outer_seq": ot[3] if ot else None}


def _strip(o):
    return {"wins": [{"open": w["open"], "items": w["items"], "end": w["end"]} for w in o["wins"]], "outer_end": o["outer_end"]}


def _same(exp, got):
    if exp["outer_end"] != "unspecified" and exp["outer_end"] != got["outer_end"]:
        return False
    if len(exp["wins"]) != len(got["wins"]):
        return False
    for a, b in zip(exp["wins"], got["wins"]):
        if a["open"] != b["open"] or a["items"] != b["items"] or a["end"] != b["end"]:
            return False
    return True


def _clause(exp, got):
    if len(exp["wins"]) != len(got["wins"]):
        return "window-count"
    for a, b in zip(exp["wins"], got["wins"]):
        if a["open"] != b["open"]:
            return "open-time"
    for a, b in zip(exp["wins"], got["wins"]):
        if a["items"] != b["items"]:
            return "contents"
    for a, b in zip(exp["wins"], got["wins"]):
        if a["end"] != b["end"]:
            return "window-end"
    return "outer-end"


def _expected_buffers(obs_w, drop_empty):
    """Buffer trace implied by an observed window run: a buffer per completed window at its completion,
    in completion order; then the terminal (first error anywhere, else completion once the outer and all
    windows have completed)."""
    errs = []
    if obs_w["outer_end"] and obs_w["outer_end"][1] == "E":
        errs.append((obs_w["outer_seq"], obs_w["outer_end"]))
    for w in obs_w["wins"]:
        if w["end"] and w["end"][1] == "E":
            errs.append((w["eseq"], w["end"]))
    errs.sort(key=lambda x: x[0])
    err = errs[0] if errs else None
    done = [w for w in obs_w["wins"] if w["end"] and w["end"][1] == "C" and (err is None or w["eseq"] < err[0])]
    done.sort(key=lambda w: w["eseq"])
    out = [[w["end"][0], "N", [x[1] for x in w["items"]]] for w in done]
    if drop_empty:
        out = [b for b in out if b[2]]
    if err is not None:
        out.append([err[1][0], "E", err[1][2]])
    elif obs_w["outer_end"] and obs_w["outer_end"][1] == "C" and all(w["end"] for w in obs_w["wins"]):
        out.append([max([obs_w["outer_end"][0]] + [w["end"][0] for w in obs_w["wins"]]), "C", None])
    return out


def _buffer_trace(p, drop_empty):
    out = []
    for t, k, v in p.trace():
        if k == "N":
            if not (isinstance(v, list) and v and v[0] == "list"):
                return None
            if drop_empty and not v[1]:
                continue
            out.append([t, "N", v[1]])
        else:
            out.append([t, k, v])
    return out


def _classes(case, obs_w, ties, choice):
    cls = ["form:" + case["form"], "src:" + case["src"]["kind"]]
    tl = case["src"]["tl"]
    term = tl[-1][1] if tl and tl[-1][1] in ("C", "E") else "never"
    cls.append("term:" + term)
    if any(not w["items"] for w in obs_w["wins"]):
        cls.append("empty-window")
    if any(w["end"] and w["end"][1] == "E" for w in obs_w["wins"]):
        cls.append("window-ended-by-error")
    if sum(1 for w in obs_w["wins"] if w["end"] and w["end"][1] == "E") >= 2:
        cls.append(">=2-windows-open-at-error")
    if ties:
        cls.append("tie-instant")
        if choice and any(choice):
            cls.append("tie-resolved-rule-first")
    if case.get("sub"):
        cls.append("late-subscribe")
    if case.get("clock") == "hist":
        cls.append("clock:hist")
    if case.get("take"):
        cls.append("outer-take")
        oe = obs_w["outer_end"]
        if oe and oe[1] == "C":
            late = [w for w in obs_w["wins"] if w["end"] is None or w["eseq"] > obs_w["outer_seq"]]
            if late:
                cls.append("window-still-open-when-outer-subscription-ended")
            if any(w["end"] and w["end"][1] == "C" and w["items"] and w["end"][0] > oe[0] for w in late):
                cls.append("window-closed-by-its-rule-after-outer-ended")
    if any(c.get("via") == "timer" and isinstance(c["dt"], (int, float)) for key in ("closings", "ldur") for c in case.get(key, ())):
        cls.append("closing:scheduler-less-timer")
    if any(c["dt"] == "sync" and c.get("hard") for key in ("closings", "ldur") for c in case.get(key, ())):
        cls.append("closing:fires-inside-subscribe")
        if any(w["end"] and w["end"][1] == "C" and w["end"][0] == w["open"] for w in obs_w["wins"]):
            cls.append("zero-length-window")
    if case.get("nocancel"):
        cls.append("best-effort-cancellation-scheduler")
    if case.get("td_args") and case.get("clock", "test") == "test":
        cls.append("timedelta-args-on-test-clock")
    if any(isinstance(case.get(k), float) for k in ("span", "shift")):
        cls.append("fractional-span-or-shift")
    if case["form"] == "count" and max(case["count"], case["skip"] or 0) > 6:
        cls.append("count-or-skip>6")
    if len([m for m in case["src"]["tl"] if m[1] == "N"]) > 8:
        cls.append("source>8-elements")
    f = case["form"]
    if f == "count":
        s = case["skip"] if case["skip"] is not None else case["count"]
        cls.append("skip<count" if s < case["count"] else ("skip=count" if s == case["count"] else "skip>count"))
    if f == "time":
        s = case["shift"] or case["span"]
        cls.append("overlapping" if s < case["span"] else ("tumbling" if s == case["span"] else "gapped"))
    return cls


def _nontrivial(obs_w):
    return sum(1 for w in obs_w["wins"] if w["items"]) >= 2


# ------------------------------------------------------------------------------------------------
# count form: closed form


def _check_count(case, obs_w, eff, sub):
    take = case.get("take")
    count = case["count"]
    skip = case["skip"] if case["skip"] is not None else count
    elems = [[t, p] for t, k, p in eff if k == "N"]
    term = next(([t, k, (["exc", p] if k == "E" else None)] for t, k, p in eff if k in ("C", "E")), None)
    n = len(elems)
    wins = obs_w["wins"]
    need = -(-n // skip) if n else 0  # windows that own at least one element: k*skip < n
    if n == 0:
        need = 0
    # window 0 always exists (opened at subscription)
    need = max(need, 1)
    if take:
        need = min(need, take)
        if len(wins) > take:
            return "window-count", f"take({take}) let {len(wins)} windows through"
    if len(wins) < need:
        return "window-count", f"expected at least {need} windows, got {len(wins)}"
    for k, w in enumerate(wins):
        lo = k * skip
        if lo > n:
            return "window-count", f"window {k} would start at element {lo} but the source has only {n}"
        exp_items = elems[lo : lo + count]
        if w["items"] != exp_items:
            return "contents", f"window {k}: expected elements {lo}..{lo + count - 1} = {exp_items}, got {w['items']}"
        if lo + count <= n:
            exp_end = [elems[lo + count - 1][0], "C", None]
        else:
            exp_end = term
        if w["end"] != exp_end:
            return "window-end", f"window {k}: expected end {exp_end}, got {w['end']}"
        t_lo = sub if k == 0 else elems[lo - 1][0]
        t_hi = elems[lo][0] if lo < n else (term[0] if term else None)
        if w["open"] < t_lo or (t_hi is not None and w["open"] > t_hi):
            return "open-time", f"window {k}: opened at {w['open']}, expected within [{t_lo}, {t_hi}]"
    if take and len(wins) == take:
        exp_outer = [wins[take - 1]["open"], "C", None]
        if obs_w["outer_end"] != exp_outer:
            return "outer-end", f"outer sequence behind take({take}) ended with {obs_w['outer_end']}, expected {exp_outer}"
    elif obs_w["outer_end"] != term:
        return "outer-end", f"outer sequence ended with {obs_w['outer_end']}, source with {term}"
    return None, ""


# ------------------------------------------------------------------------------------------------
# run


def _sim_for(case, eff, sub, mode=TOGGLE_SOURCE_COMPLETION_ENDS_WINDOWS):
    f = case["form"]
    H = _horizon(case)
    src = _canon_src(eff)
    if f == "time":
        return refwin.sim_time(src, sub, case["span"], case["shift"] or case["span"], H)
    if f == "toc":
        return refwin.sim_toc(src, sub, case["span"], case["count"], H)
    if f == "boundary":
        return refwin.sim_boundary(src, sub, _effective(case["b"], sub), H)
    if f == "when":
        return refwin.sim_when(src, sub, case["closings"], H)
    if f == "toggle":
        return refwin.sim_toggle(src, sub, _int_src(_effective(case["o"], sub)), case["closings"], H, completion_ends_windows=mode)
    raise AssertionError(f)


def _take_view(out, k):
    """What a subscriber behind take(k) on the outer sequence observes: the first k windows - each with the contents
    and the end its rule dictates, the outer subscription's end does not change an emitted window's rule - and the
    outer sequence completed at the emission of the k-th window (or ended as usual if fewer windows are emitted)."""
    res = dict(out)
    res["wins"] = out["wins"][:k]
    if len(out["wins"]) >= k:
        res["outer_end"] = [out["wins"][k - 1]["open"], "C", None]
    return res


def _match(sim, got, cap=512, take=None):
    """Returns (matched choices | None, first outcome, ties, capped)."""
    first = None
    ties = 0
    for choice, out in refwin.outcomes(sim, cap):
        if choice is None:
            return None, first, ties, True
        if take:
            out = _take_view(out, take)
        if first is None:
            first = out
        ties = max(ties, out.get("ties", 0))
        if _same(out, got):
            return choice, first, ties, False
    return None, first, ties, False


_OPNAME = {"count": "window_with_count", "time": "window_with_time", "toc": "window_with_time_or_count", "boundary": "window", "when": "window_when", "toggle": "window_toggle"}
SECOND = ":2nd-subscription"


def _resub_classes(case, i):
    r = case.get("resub")
    if not r:
        return []
    return ["second-subscription:" + r["mode"]] if i == 1 else ["resubscribed-case"]


def _judge_windows(case, i, sub, p, marks):
    """Judge the i-th subscription's window run.  Returns (Result | None, obs_w, classes)."""
    f = case["form"]
    opname = _OPNAME[f]
    sfx = SECOND if i == 1 else ""
    eff = _effective(case["src"], sub)
    obs_w = _observe(p)
    got = _strip(obs_w)
    ties, choice = 0, None
    if f == "count":
        clause, msg = _check_count(case, got, _canon_src(eff), sub)
        if clause:
            return FAIL(f"count:{clause}{sfx}|{opname}", f"{msg} subscription#{i} at {sub} case={case} observed={got}", classes=_classes(case, obs_w, 0, None) + _resub_classes(case, i)), obs_w, []
    else:
        try:
            judged = got
            term_seq = marks[i] if f == "toggle" and i < len(marks) else None
            if term_seq is not None:
                # only windows opened before the source's terminal are judged
                judged = {"wins": [dict(w) for w, ow in zip(got["wins"], obs_w["wins"]) if ow["oseq"] < term_seq], "outer_end": got["outer_end"]}
            choice, first, ties, capped = _match(_sim_for(case, eff, sub), judged, take=case.get("take"))
            if choice is None and capped:
                return SKIP("too-many-ties"), obs_w, []
            if choice is None:
                cls = _classes(case, obs_w, ties, None) + _resub_classes(case, i)
                if f == "toggle":
                    alt, _, _, _ = _match(_sim_for(case, eff, sub, mode=False), got, take=case.get("take"))
                    if alt is not None:
                        # the registered finding keeps its signature whichever subscription shows it
                        return (
                            FAIL(
                                "toggle:open-window-outlives-source-completion|window_toggle",
                                f"windows open when the source completes do not end with it. subscription#{i} at {sub} case={case} observed={got} expected(property)={first}",
                                classes=cls,
                            ),
                            obs_w,
                            [],
                        )
                return FAIL(f"{f}:{_clause(first, judged)}{sfx}|{opname}", f"subscription#{i} at {sub} case={case} observed={judged} expected(one of, first shown)={first}", classes=cls), obs_w, []
        except refwin.SimSpin:
            return SKIP("sim-spin"), obs_w, []
    return None, obs_w, _classes(case, obs_w, ties, choice)


def _run(case):
    f = case["form"]
    if f == "gjoin":
        return _run_gjoin(case)
    subs = _subs(case)
    lab, probes, marks = _execute(case, "window")
    if lab.inconclusive:
        return SKIP(lab.inconclusive)
    for q in lab.probes:
        ok, msg = q.grammar_ok()
        if not ok:
            return FAIL(f"{f}:grammar", f"{msg} case={case}")
    opname = _OPNAME[f]
    runs = []
    cls = []
    if getattr(lab, "nocancel", None) is not None and lab.nocancel.fired_after_cancel:
        cls.append("cancelled-timer-fired-anyway")
    for i, (sub, p) in enumerate(zip(subs, probes)):
        res, obs_w, c = _judge_windows(case, i, sub, p, marks)
        if res is not None:
            return res
        runs.append(obs_w)
        cls = cls + [x for x in c if x not in cls] + _resub_classes(case, i)
    if case.get("take"):
        # take(k) on a buffer stream means something else (k buffers): no differential for these cases
        return OK(_nontrivial(runs[0]), cls)
    # differential: buffers are the contents of the windows (per subscription)
    lab2, probes2, _ = _execute(case, "buffer")
    if lab2.inconclusive:
        return SKIP(lab2.inconclusive)
    drop = f == "count"
    for i, (obs_w, p2) in enumerate(zip(runs, probes2)):
        sfx = SECOND if i == 1 else ""
        ok, msg = p2.grammar_ok()
        if not ok:
            return FAIL(f"{f}:buffer-grammar{sfx}", f"{msg} case={case}", classes=cls)
        exp_b = _expected_buffers(obs_w, drop)
        got_b = _buffer_trace(p2, drop)
        if got_b is None:
            return FAIL(f"{f}:buffer-not-a-list{sfx}|buffer", f"case={case} trace={p2.trace()}", classes=cls)
        if got_b != exp_b:
            return FAIL(
                f"{f}:buffer-vs-window{sfx}|buffer_{opname[7:] or 'boundary'}",
                f"subscription#{i} case={case} buffers={got_b} expected from windows={exp_b} windows={_strip(obs_w)}",
                classes=cls,
            )
        if any(b[1] == "N" and len(b[2]) >= 2 for b in got_b) and "buffer>=2-elements" not in cls:
            cls.append("buffer>=2-elements")
    if len(runs) == 2 and _nontrivial(runs[1]):
        cls.append("second-subscription-nontrivial")
    return OK(_nontrivial(runs[0]), cls)


# ------------------------------------------------------------------------------------------------
# group_join (the mechanism behind toggle), judged on its documented duration semantics


def _rdur_index(case, c):
    return stable_hash(c) % len(case["rdur"])


def _run_gjoin(case):
    subs = _subs(case)
    lab = Lab()
    right = lab.source(case["src"], "src")
    left = lab.source(case["left"], "left")
    ld, rd = case["ldur"], case["rdur"]
    ldm = lab.fn("ldur", lambda v: _closing_obs(lab, ld[v % len(ld)]))
    rdm = lab.fn("rdur", lambda v: _closing_obs(lab, rd[_rdur_index(case, canon(v))]))

    def pick(t):
        t[1]._c18_left = canon(t[0])  # remembered on the window object (subscription-independent)
        return t[1]

    obs = left.pipe(ops.group_join(right, ldm, rdm), ops.map(pick))
    probes = _subscribe_all(lab, case, obs)
    lab.run(until=_horizon(case))
    if lab.escaped is not None:
        raise lab.escaped
    if lab.inconclusive:
        return SKIP(lab.inconclusive)
    for q in lab.probes:
        ok, msg = q.grammar_ok()
        if not ok:
            return FAIL("gjoin:grammar", f"{msg} case={case}")
    by_id = {idx: o for idx, o in lab._obs_ids.values()}
    cls = []
    nts = []
    for i, (sub, p) in enumerate(zip(subs, probes)):
        sfx = SECOND if i == 1 else ""
        keys = [getattr(by_id[ip.obs], "_c18_left", None) for ip in p.inners]
        obs_w = _observe(p)
        got = _strip(obs_w)
        eff_r = [[t, k, ([pl, _rdur_index(case, pl)] if k == "N" else pl)] for t, k, pl in _canon_src(_effective(case["src"], sub))]
        eff_l = _int_src(_effective(case["left"], sub))
        sim = refwin.sim_group_join(eff_l, eff_r, sub, ld, rd, _horizon(case))
        first = None
        ties = 0
        matched = None
        for choice, out in refwin.outcomes(sim, 512):
            if choice is None:
                return SKIP("too-many-ties")
            if first is None:
                first = out
            ties = max(ties, out["ties"])
            if _same(out, got) and out["keys"] == keys:
                matched = (choice, out)
                break
        c = _classes(case, obs_w, ties, matched[0] if matched else None)
        cls = cls + [x for x in c if x not in cls] + _resub_classes(case, i)
        if matched is None:
            clause = "keys" if first["keys"] != keys and len(first["wins"]) == len(got["wins"]) else _clause(first, got)
            return FAIL(f"gjoin:{clause}{sfx}|group_join", f"subscription#{i} at {sub} case={case} observed={got} keys={keys} expected(one of, first shown)={first}", classes=cls)
        if matched[1]["replayed"] and "right-value-replayed-into-later-window" not in cls:
            cls.append("right-value-replayed-into-later-window")
        nts.append(_nontrivial(obs_w))
    if any(c["dt"] == "sync" for c in rd):
        cls.append("zero-right-duration")
    if len(nts) == 2 and nts[1]:
        cls.append("second-subscription-nontrivial")
    return OK(nts[0], cls)


# ------------------------------------------------------------------------------------------------
# case generation


def _enum_count(tier):
    N = 12 if tier == "quick" else 16
    top = 6 if tier == "quick" else 9
    for count in range(1, top + 1):
        for skip in [None] + list(range(1, top + 1)):
            for n in range(0, N + 1):
                for term in ("C", "E", None):
                    for spacing in (0, 1):
                        tl = [[(i + 1) if spacing == 0 else (i // 3 + 1), "N", f"n:{i}"] for i in range(n)]
                        last = tl[-1][0] if tl else 0
                        if term == "C":
                            tl.append([last + (1 - spacing), "C", None])
                        elif term == "E":
                            tl.append([last + (1 - spacing), "E", "e1"])
                        yield {"form": "count", "count": count, "skip": skip, "sub": 0, "src": {"kind": "cold", "tl": tl}}
                        if n <= 7 and spacing == 0:
                            # the same windowed observable subscribed a second time: per-subscription counters
                            r = {"mode": "after"} if (n + count) % 2 == 0 else {"mode": "overlap", "at": 1 + (n + (skip or 0)) % 3}
                            yield {"form": "count", "count": count, "skip": skip, "sub": 0, "resub": r, "src": {"kind": "cold", "tl": tl}}


def _src(tier):
    return st.fixed_dictionaries(
        {
            "kind": st.sampled_from(["cold", "cold", "hot", "sync"]),
            "tl": timelines(max_len=8 if tier == "quick" else 12, max_dt=3, values=NAMES, terminal=("C", "C", "E", None)),
        }
    )


_sub = st.sampled_from([0, 0, 0, 2, 3])
_closing = st.fixed_dictionaries(
    {"dt": st.sampled_from([0, 1, 1, 2, 3, 4, 6, None]), "kind": st.sampled_from(["N", "N", "C"]), "via": st.sampled_from(["timeline", "timeline", "timer"])}
)
_take = st.sampled_from([None, None, None, 1, 2, 3])
_sync_closing = st.fixed_dictionaries({"dt": st.just("sync"), "kind": st.sampled_from(["N", "C"]), "hard": st.just(True)})
_closing_or_sync = st.one_of(_closing, _closing, _closing, _sync_closing)
_closings = st.lists(_closing, min_size=1, max_size=3).filter(lambda cs: any(c["dt"] != 0 for c in cs))
_ints = ["n:0", "n:1", "n:2", "n:3"]
_resub = st.sampled_from([None, None, None, None, {"mode": "after"}, {"mode": "after"}, {"mode": "overlap", "at": 1}, {"mode": "overlap", "at": 3}])
_clock = st.sampled_from(["test", "test", "test", "hist"])
_spans = [1, 2, 3, 4, 5, 6, 1.5, 2.5]
_shifts = [None, 1, 1, 2, 2, 3, 3, 4, 5, 6, 8, 0.5, 1.5, 2.5]


def _fix_resub(case):
    if case.get("take") is None:
        case.pop("take", None)
    else:
        case["resub"] = None
    if case.get("resub") is None:
        case.pop("resub", None)
    elif case["form"] == "when":
        case["closings"] = case["closings"][:1] if case["closings"][0]["dt"] != 0 else [{"dt": 1, "kind": case["closings"][0]["kind"]}]
    return case


def _gen_form(f, tier="quick"):
    base = {"form": st.just(f), "src": _src(tier), "sub": _sub, "resub": _resub}
    if f != "gjoin":
        base["take"] = _take
    if f == "count":
        big = [7, 8, 9, 12]
        base.update(count=st.sampled_from([1, 2, 3, 4, 5, 6] * 2 + big), skip=st.sampled_from([None, 1, 2, 3, 4, 5, 6] * 2 + big))
    elif f == "time":
        base.update(span=st.sampled_from(_spans), shift=st.sampled_from(_shifts), clock=_clock, sched_arg=st.booleans(), td_args=st.booleans(), nocancel=st.sampled_from([False, False, False, True]))
    elif f == "toc":
        base.update(span=st.sampled_from(_spans), count=st.sampled_from([1, 2, 3, 4]), clock=_clock, sched_arg=st.booleans(), td_args=st.booleans(), nocancel=st.sampled_from([False, False, True]))
    elif f == "boundary":
        base.update(
            b=st.fixed_dictionaries(
                {"kind": st.sampled_from(["cold", "cold", "hot"]), "tl": timelines(max_len=5, max_dt=4, values=_ints, terminal=(None, None, "C"))}
            ),
            clock=_clock,
        )
    elif f == "when":
        base.update(closings=_closings, clock=_clock)
    elif f == "toggle":
        base.update(
            o=st.fixed_dictionaries(
                {"kind": st.sampled_from(["cold", "cold", "hot"]), "tl": timelines(max_len=5, max_dt=4, values=_ints, terminal=(None, None, "C"))}
            ),
            closings=st.lists(_closing_or_sync, min_size=1, max_size=3),
            clock=_clock,
        )
    elif f == "gjoin":
        base.update(
            left=st.fixed_dictionaries(
                {"kind": st.sampled_from(["cold", "cold", "hot"]), "tl": timelines(max_len=5, max_dt=4, values=_ints, terminal=(None, None, "C"))}
            ),
            ldur=st.lists(_closing_or_sync, min_size=1, max_size=3),
            rdur=st.lists(st.fixed_dictionaries({"dt": st.sampled_from(["sync", 0.5, 1.5, 2.5, 4.5, None]), "kind": st.sampled_from(["N", "N", "C"])}), min_size=1, max_size=3),
        )
    return st.fixed_dictionaries(base).map(_fix_resub)


def checks(tier):
    q = tier == "quick"
    return [
        Check("count_enum", _run, cases=_enum_count, shards={"quick": 4, "thorough": 16}, exhaustive=True),
        Check("count", _run, strategy=_gen_form("count", tier), examples={"quick": 300, "thorough": 16 * 2000}, shards={"quick": 4, "thorough": 16}),
        Check("time", _run, strategy=_gen_form("time", tier), examples={"quick": 700, "thorough": 16 * 5000}, shards={"quick": 4, "thorough": 16}),
        Check("time_or_count", _run, strategy=_gen_form("toc", tier), examples={"quick": 500, "thorough": 16 * 3000}, shards={"quick": 4, "thorough": 16}),
        Check("boundary", _run, strategy=_gen_form("boundary", tier), examples={"quick": 400, "thorough": 16 * 2500}, shards={"quick": 4, "thorough": 16}),
        Check("when", _run, strategy=_gen_form("when", tier), examples={"quick": 400, "thorough": 16 * 2500}, shards={"quick": 4, "thorough": 16}),
        Check("group_join", _run, strategy=_gen_form("gjoin", tier), examples={"quick": 400, "thorough": 16 * 2500}, shards={"quick": 4, "thorough": 16}),
        Check("toggle", _run, strategy=_gen_form("toggle", tier), examples={"quick": 500, "thorough": 16 * 3000}, shards={"quick": 4, "thorough": 16}),
    ]
