"""C15 Time-shifting operators move notifications by the requested time."""
from __future__ import annotations

from hypothesis import strategies as st

from reactivex import operators as ops

from vlib.core import FAIL, OK, Check
from vlib.lab import conform
from vlib.timeops import (
    CLOCKS,
    combine,
    cv,
    effective,
    execute,
    execute_all,
    mk_trigger,
    sched_modes,
    sched_setup,
    first_fire,
    fwd,
    judge,
    mk_lab,
    nelems,
    outcomes,
    prelude,
    second_sub,
    sources,
    sub_ticks,
    targ,
    tick_datetime,
    triggers,
    with_feedback,
)
from vlib.values import Tagged, canon

PROPERTY_ID = "C15"
LEVEL = "exploration"
RULE = (
    "Generated cases per operator: a cold / hot / synchronous logged source (0-5 uniquely numbered elements, gaps drawn from "
    "{0,1,2,3,d-1,d,d+1,2d,2d+1} so bursts and gaps <,=,> the delay occur, terminal C/E/none), subscribed at tick 0/2/5, on the "
    "numeric TestScheduler clock and on the datetime HistoricalScheduler clock (1 tick = 1 ms); delay d in 0..5 passed as int, "
    "float, timedelta or absolute datetime. Oracles (closed form on the effective timeline): delay = every N and C exactly d "
    "later in order, E at its own instant dropping undelivered elements (elements due at exactly the error instant: either); "
    "delay_subscription = exactly one source subscription at s0+d and the source's notifications from then on (an element in "
    "the same instant as a following error may be lost); delay_with_mapper = every element exactly once at the instant its "
    "duration observable first emits or completes (durations: never, immediate, N, C, multi-element; asynchronous and "
    "synchronous; optional subscription-delay observable), completion at max(source completion, last delivery), order inside "
    "one instant not judged; timestamp = (value, clock reading as datetime); time_interval = (value, time since previous "
    "element or since subscription). Non-trivial: delay: >=2 elements and some element still pending when a later notification "
    "arrives; delay_subscription: d>0 and >=1 element; delay_with_mapper: >=2 elements and >=1 duration firing strictly later "
    "than its element; timestamp/time_interval: >=2 elements. Every check except delay_with_mapper_subdelay subscribes, in 1 case of 3, the same built observable a second time at a generated tick s1 in s0+{0,1,2,3,7} and applies the same oracle to that probe with its own subscribe tick (absolute due time D: expected shift D - s1). Scheduler passing: operators with a scheduler parameter (delay, delay_subscription, timestamp, time_interval) are run in three modes - sub (no argument, subscription carries scheduler=lab scheduler), arg (scheduler=lab scheduler as operator argument, subscription carries none), arg-other (argument as before, subscription carries a different never-started virtual scheduler whose clock reads +1000 ticks; not for delay_subscription) - and must behave identically; one in four duration / subscription-delay observables of delay_with_mapper is a scheduler-less library factory (timer(d), empty(), return_value, never) that must inherit the subscribe-time scheduler. Any request for the real-time TimeoutScheduler during a run is refused and reported (realtime-fallback), any action left on the decoy scheduler is reported (wrong-scheduler). Thorough tier goes deeper: up to 10 elements per timeline (8 for delay_with_mapper), half of them dense (gaps 0-2), delays up to 8 ticks. Re-entrant feedback (check delay_feedback): delay(d) over a hot source into which the downstream, from inside the delivery of its k-th delayed element, synchronously pushes an error (must be delivered at that instant, pending elements dropped) or a new element (due d later); reference run enumerates both orders of deliveries and source notifications of one instant. Check stamp_feedback: timestamp / time_interval over a hot source into which the consumer pushes a new element from inside its on_next for the k-th element; the pushed element arrives at that same instant right after the delivered one (clock reading = that instant, interval since the previous element = 0). Distinct = distinct case JSON."
)
ASSUMPTIONS = [
    "absolute datetimes passed to delay/delay_subscription are not earlier than the subscription instant",
    "at an exact tie between an operator timer and a source notification either order is accepted (one order per timer and instant)",
    "the order of deliveries of different elements inside one virtual instant is not judged for delay_with_mapper",
    "sources are conforming (nothing after the first terminal)",
    "duration / subscription-delay observables that error are not generated (the property is silent about them)",
]

FORMS_REL = ["num", "float", "td"]


def _darg(lab, form, d, s0):
    return targ(lab, "abs", s0 + d) if form == "abs" else targ(lab, form, d)


# ------------------------------------------------------------------------------ delay
def _exp_delay(eff, d, ch):
    out = []
    for m in eff:
        T, k, v = m
        if k == "N":
            out.append([T + d, "N", cv(v)])
        elif k == "C":
            out.append([T + d, "C", None])
        else:
            keep = [e for e in out if e[0] < T]
            tied = [e for e in out if e[0] == T]
            if tied and ch():
                keep += tied
            out = keep + [[T, "E", ["exc", v]]]
    return out


def _run_delay(case):
    lab = mk_lab(case["clock"])
    s0 = case["s0"]
    src = lab.source(case["src"])
    ticks = sub_ticks(case)
    kw, sub = sched_setup(lab, case)
    probes = execute_all(lab, src.pipe(ops.delay(_darg(lab, case["form"], case["d"], s0), **kw)), ticks, sub=sub)
    return combine([_judge_delay(case, lab, p, s) for p, s in zip(probes, ticks)], ticks)


def _judge_delay(case, lab, p, s):
    # an absolute due time D = s0 + d means a shift of D - s for the subscription made at tick s
    d = case["d"] if case["form"] != "abs" else case["s0"] + case["d"] - s
    eff = effective(case["src"], s)
    ts = [m[0] for m in eff]
    n = sum(1 for m in eff if m[1] == "N")
    pending = any(eff[i][1] == "N" and eff[i][0] + d > eff[j][0] for i in range(len(eff)) for j in range(i + 1, len(eff)))
    cls = [f"form:{case['form']}", f"clock:{case['clock']}", f"src:{case['src']['kind']}", f"sch:{case.get('sch') or 'sub'}"]
    if d == 0:
        cls.append("d=0")
    if len(set(ts)) < len(ts):
        cls.append("burst")
    if eff and eff[-1][1] == "E" and any(m[1] == "N" and m[0] + d > eff[-1][0] for m in eff):
        cls.append("error-drops-pending")
    if eff and eff[-1][1] == "E" and any(m[1] == "N" and m[0] + d == eff[-1][0] for m in eff):
        cls.append("element-due-at-error-instant")
    if any(b - a == d for a, b in zip(ts, ts[1:])):
        cls.append("gap=d")
    if n >= 7:
        cls.append("timeline>=7-elements")
    depth = max([sum(1 for m in eff if m[0] <= x[0] < m[0] + d) for x in eff] or [0])
    if depth >= 7:
        cls.append("pending>=7")
    return judge("delay", case, lab, p, outcomes(lambda ch: _exp_delay(eff, d, ch)), cls, n >= 2 and pending)


# ------------------------------------------------------------------------------ delay with re-entrant feedback
def _exp_delay_fb(eff, d, fb, ch):
    """Reference run of delay(d) over a hot source into which the downstream, from inside the delivery of its k-th element,
    synchronously pushes an error (fb[k] == "E": delivered immediately, pending elements dropped) or a new element
    (fb[k] == "N": value 1000+k, due d later).  Deliveries and source notifications of one instant: either order (one per instant)."""
    q, out, dec = [], [], {}
    i = delivered = 0
    src_done = False
    while True:
        ts = eff[i][0] if (i < len(eff) and not src_done) else None
        td = q[0][0] if q else None
        if ts is None and td is None:
            return out
        timer = td is not None and (ts is None or td < ts)
        if not timer and td is not None and td == ts:
            if td not in dec:
                dec[td] = ch()
            timer = dec[td]
        if timer:
            due, k, v = q.pop(0)
            if k == "C":
                out.append([due, "C", None])
                return out
            out.append([due, "N", v])
            kidx = delivered
            delivered += 1
            if kidx in fb and not src_done:
                if fb[kidx] == "E":
                    out.append([due, "E", ["exc", "fb"]])
                    return out
                q.append([due + d, "N", ["int", 1000 + kidx]])
        else:
            T, k, v = eff[i]
            i += 1
            if k == "N":
                q.append([T + d, "N", cv(v)])
            elif k == "C":
                q.append([T + d, "C", None])
                src_done = True
            else:
                out.append([T, "E", ["exc", v]])
                return out


def _run_delay_fb(case):
    lab = mk_lab(case["clock"])
    s0, d = case["s0"], case["d"]
    src = lab.source(case["src"])
    fb = {int(k): v for k, v in case["fb"]}
    seen = [0]

    def feedback(_v):
        k = seen[0]
        seen[0] += 1
        if k in fb:
            for o in list(src.observers):  # re-entrant: the source speaks while a delayed element is being delivered
                if fb[k] == "E":
                    o.on_error(Tagged("fb"))
                else:
                    o.on_next(1000 + k)

    probes = execute_all(lab, src.pipe(ops.delay(targ(lab, case["form"], d)), ops.do_action(feedback)), [s0])
    eff = effective(case["src"], s0)
    outs = outcomes(lambda ch: _exp_delay_fb(eff, d, fb, ch))
    cls = [f"form:{case['form']}", f"clock:{case['clock']}", "feedback:" + "+".join(sorted(set(fb.values())))]
    tr = probes[0].trace()
    if any(e[2] == ["exc", "fb"] for e in tr if e[1] == "E"):
        cls.append("feedback-error-delivered")
        if any(o[-1][1] == "E" and o[-1][2] == ["exc", "fb"] and sum(1 for m in eff if m[1] == "N") > sum(1 for e in o if e[1] == "N") for _, o in outs):
            cls.append("feedback-error-drops-pending")
    if any(e[1] == "N" and e[2][1] >= 1000 for e in tr):
        cls.append("feedback-element-delivered")
    n = sum(1 for m in eff if m[1] == "N")
    return judge("delay", case, lab, probes[0], outs, cls, n >= 2 and bool(cls[3:]))


# ------------------------------------------------------------------------------ delay_subscription
def _exp_delaysub(spec, s0, d, ch):
    S = s0 + d
    tl = conform(spec["tl"])
    if spec["kind"] == "hot":
        eff = [m for m in tl if m[0] > S or (m[0] == S and m[0] > s0 and ch())]
    else:
        eff = [[S + t, k, p] for t, k, p in tl]
    out = [fwd(m) for m in eff]
    if eff and eff[-1][1] == "E":
        T = eff[-1][0]
        if any(e[0] == T and e[1] == "N" for e in out) and ch():
            out = [e for e in out if not (e[0] == T and e[1] == "N")]
    return out


def _run_delaysub(case):
    lab = mk_lab(case["clock"])
    s0 = case["s0"]
    src = lab.source(case["src"])
    ticks = sub_ticks(case)
    kw, sub = sched_setup(lab, case)
    probes = execute_all(lab, src.pipe(ops.delay_subscription(_darg(lab, case["form"], case["d"], s0), **kw)), ticks, sub=sub)
    r = prelude(lab, probes[0], "delay_subscription", case)
    if r is not None:
        return r
    cls = [f"form:{case['form']}", f"clock:{case['clock']}", f"src:{case['src']['kind']}", f"sch:{case.get('sch') or 'sub'}"]
    if case["d"] == 0:
        cls.append("d=0")
    ds = [case["d"] if case["form"] != "abs" else s0 + case["d"] - s for s in ticks]
    want = sorted(s + d for s, d in zip(ticks, ds))
    if sorted(x[0] for x in src.subs) != want:
        sig = "subscribe-time|delay_subscription" + (":2nd-subscription" if len(ticks) > 1 else "")
        return FAIL(sig, f"source subscriptions {src.subs}, expected exactly at {want}; case={case}", classes=cls)
    n = nelems(case["src"])
    res = [
        judge("delay_subscription", case, lab, p, outcomes(lambda ch, s=s, d=d: _exp_delaysub(case["src"], s, d, ch)), cls, d > 0 and n >= 1)
        for p, s, d in zip(probes, ticks, ds)
    ]
    return combine(res, ticks)


# ------------------------------------------------------------------------------ delay_with_mapper
def _run_dwm(case):
    lab = mk_lab(case["clock"])
    s0 = case["s0"]
    src = lab.source(case["src"])
    durs = case["durs"]
    made = []

    def mapper(x):
        o = mk_trigger(lab, durs[x])
        made.append(o)
        return o

    sd = case.get("subdelay")
    if sd is None:
        op = ops.delay_with_mapper(mapper)
    else:
        op = ops.delay_with_mapper(mk_trigger(lab, sd), mapper)
    ticks = sub_ticks(case) if sd is None else [s0]
    probes = execute_all(lab, src.pipe(op), ticks)
    r = combine([_judge_dwm(case, lab, p, src, s, ticks) for p, s in zip(probes, ticks)], ticks)
    if not r.ok and not r.sig.startswith("escaped"):
        # root-cause buckets: a subscription delay / a duration observable that fires inside its own subscribe() call
        def sync_now(spec):
            return spec["kind"] == "sync" and (first_fire(spec["tl"]) or [1])[0] == 0

        if sd is not None and sync_now(sd):
            r.sig = "sync-subscription-delay|delay_with_mapper"
        elif any(sync_now(q) and len(conform(q["tl"])) > 1 for q in durs):
            r.sig = "sync-duration-multi-event|delay_with_mapper"
    return r


def _judge_dwm(case, lab, p, src, s0, ticks):
    durs, sd = case["durs"], case.get("subdelay")
    r = prelude(lab, p, "delay_with_mapper", case)
    if r is not None:
        return r
    cls = [f"clock:{case['clock']}", f"src:{case['src']['kind']}"]
    if sd is not None:
        cls.append("subdelay:" + sd["kind"])
    tr = p.trace()
    got_n = sorted([e[0], e[2][1]] for e in tr if e[1] == "N")
    term = p.terminal()
    term = term[:3] if term else None

    # subscription instant
    S = s0
    if sd is not None:
        ff = first_fire(sd["tl"])
        if ff is None:
            cls.append("subdelay-never")
            if tr or src.subs:
                return FAIL("subdelay-never|delay_with_mapper", f"trace={tr} subs={src.subs} case={case}", classes=cls)
            return OK(False, cls)
        if ff[1] == "E":
            cls.append("subdelay-error")
            if tr != [[s0 + ff[0], "E", ["exc", "dur"]]] or src.subs:
                return FAIL("subdelay-error|delay_with_mapper", f"trace={tr} subs={src.subs} case={case}", classes=cls)
            return OK(False, cls)
        S = s0 + ff[0]
    want_subs = [S] if sd is not None else sorted(ticks)
    if sorted(s[0] for s in src.subs) != want_subs:
        return FAIL(
            "subscribe-time|delay_with_mapper",
            f"source subscriptions {src.subs}, expected exactly at {want_subs}; trace={tr} case={case}",
            classes=cls,
        )
    eff = [[S + t, k, v] for t, k, v in conform(case["src"]["tl"])]
    # per element: delivery instant or error instant
    fire, errs = {}, []
    sync_fire = set()
    for T, k, v in eff:
        if k == "N":
            i = int(v[2:])
            ff = first_fire(durs[i]["tl"])
            if ff is None:
                fire[i] = None
                cls.append("duration-never")
            elif ff[1] == "E":
                errs.append([T + ff[0], ["exc", "dur"]])
                fire[i] = None
            else:
                fire[i] = T + ff[0]
                if durs[i]["kind"].startswith("lib:"):
                    cls.append("duration:" + durs[i]["kind"])
                if durs[i]["kind"] == "sync" and ff[0] == 0:
                    sync_fire.add(i)
                    if len(conform(durs[i]["tl"])) > 1:
                        cls.append("duration-sync-multi-event")
                if len(conform(durs[i]["tl"])) > 1:
                    cls.append("duration-multi-event")
        elif k == "E":
            errs.append([T, ["exc", v]])
    X = min((e[0] for e in errs), default=None)
    dupsig = "exactly-once|delay_with_mapper"
    if X is not None:
        cls.append("error-path")
        required = sorted([fire[i], i] for i in fire if fire[i] is not None and fire[i] < X)
        optional = sorted([fire[i], i] for i in fire if fire[i] is not None and fire[i] == X)
        if optional:
            cls.append("delivery-at-error-instant")
        if any(fire[i] is not None and fire[i] > X for i in fire):
            cls.append("error-drops-pending")
        rest = list(got_n)
        for q in required:
            if q not in rest:
                return FAIL("missing|delay_with_mapper", f"element {q[1]} due at {q[0]} before the error at {X} not delivered; trace={tr} case={case}", classes=cls)
            rest.remove(q)
        for q in rest:
            if q not in optional:
                return FAIL(dupsig if got_n.count(q) > 1 else "extra|delay_with_mapper", f"unexpected delivery [tick, element] {q}; trace={tr} case={case}", classes=cls)
            optional.remove(q)
        if term is None or term[1] != "E" or term[0] != X or term[2] not in [e[1] for e in errs if e[0] == X]:
            return FAIL("error-time|delay_with_mapper", f"expected error at {X} from {errs}, terminal={term}; trace={tr} case={case}", classes=cls)
    else:
        expected = sorted([fire[i], i] for i in fire if fire[i] is not None)
        if got_n != expected:
            dup = any(got_n.count(q) > 1 for q in got_n)
            return FAIL(dupsig if dup else "delivery|delay_with_mapper", f"deliveries [tick, element] got={got_n} expected={expected}; trace={tr} case={case}", classes=cls)
        completes = bool(eff) and eff[-1][1] == "C" and all(f is not None for f in fire.values())
        if completes:
            tc = max([eff[-1][0]] + [f for f in fire.values()])
            if term != [tc, "C", None]:
                return FAIL("completion|delay_with_mapper", f"expected completion at {tc}, terminal={term}; trace={tr} case={case}", classes=cls)
            if tc > eff[-1][0]:
                cls.append("completion-waits-for-delay")
        elif term is not None:
            return FAIL("completion|delay_with_mapper", f"unexpected terminal {term}; trace={tr} case={case}", classes=cls)
    if sync_fire:
        cls.append("duration-sync-immediate")
    later = any(fire[i] is not None and fire[i] > T for T, k, v in eff if k == "N" for i in [int(v[2:])])
    return OK(len(fire) >= 2 and later, cls)


# ------------------------------------------------------------------------------ timestamp / time_interval
def _run_stamp(case):
    lab = mk_lab(case["clock"])
    s0 = case["s0"]
    src = lab.source(case["src"])
    which = case["op"]
    kw, sub = sched_setup(lab, case)
    if which == "timestamp":
        o = src.pipe(ops.timestamp(**kw), ops.map(lambda r: ("ts", r.value, r.timestamp)))
    else:
        o = src.pipe(ops.time_interval(**kw), ops.map(lambda r: ("ti", r.value, r.interval)))
    ticks = sub_ticks(case)
    probes = execute_all(lab, o, ticks, sub=sub)
    return combine([_judge_stamp(case, lab, p, s, which) for p, s in zip(probes, ticks)], ticks)


def _judge_stamp(case, lab, p, s0, which):
    eff = effective(case["src"], s0)
    exp = []
    last = s0
    for m in eff:
        T, k, v = m
        if k != "N":
            exp.append(fwd(m))
        elif which == "timestamp":
            exp.append([T, "N", canon(("ts", int(v[2:]), tick_datetime(lab, T)))])
        else:
            exp.append([T, "N", canon(("ti", int(v[2:]), tick_datetime(lab, T) - tick_datetime(lab, last)))])
            last = T
    n = sum(1 for m in eff if m[1] == "N")
    cls = [f"clock:{case['clock']}", f"src:{case['src']['kind']}", f"sch:{case.get('sch') or 'sub'}"]
    if len({m[0] for m in eff}) < len(eff):
        cls.append("burst")
    if case["src"]["kind"] == "hot" and len(eff) < len(conform(case["src"]["tl"])):
        cls.append("hot-element-before-subscription")
    return judge(which, case, lab, p, [((), exp)], cls, n >= 2)


def _run_stamp_fb(case):
    """timestamp / time_interval over a hot source into which the consumer pushes element 1000+k from inside its on_next
    for the k-th element: the pushed element arrives at the same instant, right after the element being delivered, so its
    clock reading is that instant and its interval since the previous element is 0."""
    lab = mk_lab(case["clock"])
    s0, which = case["s0"], case["op"]
    src = lab.source(case["src"])
    fb = set(case["fb"])
    if which == "timestamp":
        o = src.pipe(ops.timestamp(), ops.map(lambda r: ("ts", r.value, r.timestamp)))
    else:
        o = src.pipe(ops.time_interval(), ops.map(lambda r: ("ti", r.value, r.interval)))
    probes = execute_all(lab, with_feedback(o, src, fb), [s0])
    # augmented timeline: both operators are 1:1, the k-th output is delivered during the k-th source element
    eff, k = [], 0
    pend = list(effective(case["src"], s0))
    while pend:
        m = pend.pop(0)
        eff.append(m)
        if m[1] != "N":
            break
        if k in fb:
            pend.insert(0, [m[0], "N", f"n:{1000 + k}"])
        k += 1
    exp, last = [], s0
    for m in eff:
        T, kd, v = m
        if kd != "N":
            exp.append(fwd(m))
        elif which == "timestamp":
            exp.append([T, "N", canon(("ts", int(v[2:]), tick_datetime(lab, T)))])
        else:
            exp.append([T, "N", canon(("ti", int(v[2:]), tick_datetime(lab, T) - tick_datetime(lab, last)))])
            last = T
    cls = [f"clock:{case['clock']}", "feedback-during-delivery"]
    pushed = sum(1 for m in eff if m[1] == "N" and int(m[2][2:]) >= 1000)
    if pushed:
        cls.append("feedback-element-stamped")
    return judge(which, case, lab, probes[0], [((), exp)], cls, pushed >= 1 and len(eff) >= 3)


# ------------------------------------------------------------------------------ strategies
@st.composite
def _delay_cases(draw, abs_ok=True, other_ok=True, max_len=5, ds=(0, 0, 1, 2, 3, 5)):
    d = draw(st.sampled_from(list(ds)))
    s0, spec = draw(sources(d=d, max_len=max_len))
    form = draw(st.sampled_from(FORMS_REL + (["abs"] if abs_ok else [])))
    # second subscription of the same observable; an absolute due time must not lie before it
    s1 = second_sub(draw, s0, limit=d if form == "abs" else None)
    return {"clock": draw(st.sampled_from(CLOCKS)), "s0": s0, "src": spec, "d": d, "form": form, "s1": s1, "sch": sched_modes(draw, other_ok)}


@st.composite
def _dwm_cases(draw, subdelay=False, max_len=4):
    kinds = ("cold", "cold", "sync")
    s0, spec = draw(sources(d=2, kinds=("cold", "cold", "sync"), max_len=max_len))
    n = nelems(spec)
    durs = [draw(triggers(kinds=kinds)) for _ in range(n)]
    sd = None
    if subdelay:
        sd = draw(triggers(kinds=kinds))
    s1 = None if subdelay else second_sub(draw, s0)
    return {"clock": draw(st.sampled_from(CLOCKS)), "s0": s0, "src": spec, "durs": durs, "subdelay": sd, "s1": s1}


@st.composite
def _stamp_cases(draw):
    s0, spec = draw(sources(d=2))
    return {"clock": draw(st.sampled_from(CLOCKS)), "s0": s0, "src": spec, "op": draw(st.sampled_from(["timestamp", "time_interval"])), "s1": second_sub(draw, s0), "sch": sched_modes(draw)}


@st.composite
def _delay_fb_cases(draw):
    d = draw(st.sampled_from([0, 1, 2, 3]))
    s0, spec = draw(sources(d=d, max_len=5, min_len=1, kinds=("hot",)))
    ks = sorted(set(draw(st.lists(st.integers(0, 3), min_size=1, max_size=2))))
    fb = [[k, draw(st.sampled_from(["E", "E", "N"]))] for k in ks]
    return {"clock": draw(st.sampled_from(CLOCKS)), "s0": s0, "src": spec, "d": d, "form": draw(st.sampled_from(FORMS_REL)), "fb": fb}


@st.composite
def _stamp_fb_cases(draw):
    s0, spec = draw(sources(d=2, max_len=4, min_len=1, kinds=("hot",)))
    fb = sorted(set(draw(st.lists(st.integers(0, 4), min_size=1, max_size=2))))
    return {"clock": draw(st.sampled_from(CLOCKS)), "s0": s0, "src": spec, "op": draw(st.sampled_from(["timestamp", "time_interval", "time_interval"])), "fb": fb}


def checks(tier):
    T = 16
    # thorough explores deeper: up to 10 elements per timeline (8 for delay_with_mapper) and delays up to 8 ticks
    deep = {} if tier == "quick" else {"max_len": 10, "ds": (0, 1, 2, 3, 5, 8, 8)}
    return [
        Check("delay", _run_delay, strategy=_delay_cases(**deep), examples={"quick": 2400, "thorough": T * 12000}, shards={"quick": 4, "thorough": 16}),
        Check("delay_feedback", _run_delay_fb, strategy=_delay_fb_cases(), examples={"quick": 800, "thorough": T * 4000}, shards={"quick": 4, "thorough": 16}),
        Check("stamp_feedback", _run_stamp_fb, strategy=_stamp_fb_cases(), examples={"quick": 400, "thorough": T * 2000}, shards={"quick": 4, "thorough": 16}),
        Check("delay_subscription", _run_delaysub, strategy=_delay_cases(other_ok=False), examples={"quick": 1200, "thorough": T * 5000}, shards={"quick": 4, "thorough": 16}),
        Check("delay_with_mapper", _run_dwm, strategy=_dwm_cases(max_len=4 if tier == "quick" else 8), examples={"quick": 2000, "thorough": T * 8000}, shards={"quick": 4, "thorough": 16}),
        Check("stamp", _run_stamp, strategy=_stamp_cases(), examples={"quick": 800, "thorough": T * 4000}, shards={"quick": 4, "thorough": 16}),
        Check("delay_with_mapper_subdelay", _run_dwm, strategy=_dwm_cases(subdelay=True), examples={"quick": 1000, "thorough": T * 5000}, shards={"quick": 4, "thorough": 16}),
    ]
