"""C44 An operator function object can be applied to many sources independently."""
from __future__ import annotations

import json

import reactivex
from hypothesis import strategies as st

from reactivex import operators as ops

from vlib.core import FAIL, OK, SKIP, Check, HarnessError
from vlib.difftools import has_hot, coldify, dispose_tree, guard_all, first_diff, norm_tree, runaway, runtime_multiset, sort_intervals, src_key, tree_has_next
from vlib.lab import Lab
from vlib.pipes import OPS, Builder, s_count, s_dur1, s_inners, s_src, s_val
from vlib.values import val

PROPERTY_ID = "C44"
LEVEL = "exploration"
RULE = (
    "Checks `op.<name>`: one check per operator form of the shared table (all 128 names, incl. share, publish+ref_count, "
    "replay+ref_count, publish_value+ref_count, publish/replay/multicast with mapper; same budget each) with generated "
    "arguments; 2-3 independent logged primary sources (cold/sync/hot; Observable-valued or Notification-valued where the "
    "operator needs it, via a fresh per-source prefix stage); 1-2 subscribers per application subscribing at generated "
    "ticks 0..8 and optionally unsubscribing later; application either up front or lazily at the first subscribe. "
    "Check `connectable`: bare ops.publish() / ops.replay(n, window) / ops.publish_value(v) / ops.ref_count() / "
    "publish+ref_count pairs, with explicit connect()/disconnect at generated ticks interleaved with the subscriptions. "
    "Check `compose`: operator objects built by composition - reactivex.compose / ops.compose of 1-3 table operators, nested "
    "compositions, compose() with an empty stage - reused across sources. In all checks the build-time argument "
    "sources are, in 2 cases of 5, taken from a pool shared by every factory call of the lab (the user hands the same "
    "`other` observable to every call); half of those make every argument source HOT (classes shared-argument-sources, "
    "hot-argument-source). "
    "Same-source dimension (checks op.*, connectable, compose; 1 case in 3): two or all three of the applications receive "
    "the very SAME source object (after the per-source prefix stage, built once per source) - consecutively (op(xs); op(xs)) "
    "or with an application to another source in between (op(xs); op(ys); op(xs)); with lazy application the order follows "
    "the plan. Oracle unchanged: world FRESH makes a new factory call per APPLICATION, so the shared object must behave like "
    "two fresh operator objects applied to that source (classes same-source, same-source-consecutive, "
    "same-source-application-between, computed from the real application order). "
    "Check `to_future`: ops.to_future(default | asyncio.Future | concurrent.futures.Future constructor) - an operator object "
    "whose applications return Futures - applied to 2-3 sources in 1-3 groups, each group either inside its own "
    "asyncio.run() (a different running event loop per group) or with no running loop, optional cancel of the future; "
    "compared between the worlds: whether the application raised, whether the future belongs to the group's loop, its "
    "state after the virtual scheduler drained (result value / exception type+text / cancelled / pending), what "
    "`await future` gives, exceptions leaving asyncio.run or the scheduler, source subscription intervals (classes "
    "two-running-loops, loop-then-no-loop, results-in-two-environments). "
    "World ONE applies the single operator object returned by one factory call to every source; world FRESH makes a "
    "new factory call with identical arguments for every source; both run the same plan in separate labs. Oracle "
    "(differential): for every subscriber the probe tree (notifications incl. window/group inner subscribers, ticks, "
    "canonical values, observable ids removed) is identical in both worlds; every primary source has identical "
    "subscription intervals; every auxiliary source embedded in the arguments (one shared object in ONE, one per "
    "application in FRESH) has the same multiset of subscription intervals; sources created by callbacks likewise. "
    "Non-trivial: two applications are active over overlapping tick ranges and each delivered >=1 on_next. "
    "Distinct = distinct case JSON."
)
ASSUMPTIONS = [
    "operator arguments that are user-owned stateful objects (an explicit Subject for multicast, an observer for do) are excluded, as the property's quantifier does",
    "auxiliary sources inside operator arguments are either created per factory call - then they are cold/synchronous (hot specs re-read as cold), because ONE shares a cold object that FRESH duplicates, which is behaviourally neutral only for cold sources - or pooled so that every factory call of both worlds receives the same objects, in which case hot ones are sound and generated",
    "to_future is treated as in scope: it is an operator factory exported by reactivex.operators and used in pipe(); the statement's 'no ... other state leak from one application to another' applies although the application yields a Future; deterministic single-threaded asyncio only (asyncio.run per group, virtual-time sources), and for 'no running loop' groups a fresh non-running current loop is installed so process-global asyncio policy state cannot differ between the two worlds",
    "auto_connect is a ConnectableObservable method, not an operator function object; multicast(subject_factory=...) without a mapper is not a valid call (the implementation asserts the mapper); do(observer)/multicast(subject) take a user-owned stateful object (an Observer stops after its first terminal), which the statement's quantifier excludes - none of these is generated",
    "applying one operator object twice to the same source object is in scope: the statement's closing clause ('no elements, subscriber counts, subjects or other state leak from one application to another') ranges over applications, and a source listed twice is still 'a fresh operator for each' listed source; the quantifier's 'independent sources' describes the sampled domain, which is extended here, not the claim. while_do/do_while are not generated with a repeated source because the harness condition counts per source object (user state that ONE would share and FRESH would not)",
    "while_do/do_while use a condition whose counter is keyed by the source it is given (user state per source, identical in both worlds) instead of the grammar's per-factory counter; window_when/buffer_when use a single closing timeline so the grammar's call counter is irrelevant",
    "everything still subscribed at tick 150 is disposed in both worlds; runs are discarded as inconclusive and counted when the scheduler dequeues >=95 items without advancing its clock (spin bump, C29), the work budget is exceeded, the Python stack exceeds 400 frames or a RecursionError shows up in a trace, or the FRESH world lets an exception escape the scheduler",
]

HORIZON = 150


# ---------------------------------------------------------------------------------------
# operator construction (local overrides for the forms whose grammar callback is a per-factory counter)


def _while_like(opname):
    def build(B, a):
        cnt = {}

        def cond(o):
            k = id(o)
            cnt[k] = cnt.get(k, 0) + 1
            return cnt[k] <= a["n"]

        return getattr(ops, opname)(B.fn("condition", cond))

    return build


LOCAL = {"while_do": _while_like("while_do"), "do_while": _while_like("do_while")}


class PoolBuilder(Builder):
    """Builder whose *build-time* argument sources come from a pool that lives as long as the lab: the first factory
    call creates them, every later factory call with the same arguments receives the very same source objects (the
    user passes the same `other` observable to every ops.merge(other) call).  Sources created later by callbacks
    (inner factories) stay fresh per call.  With shared argument sources both worlds may soundly contain hot ones."""

    def __init__(self, lab, pool):
        super().__init__(lab)
        self.pool = pool
        self.i = 0
        self.building = False

    def src(self, spec):
        if not self.building:
            return super().src(spec)
        if self.i >= len(self.pool):
            self.pool.append(super().src(spec))
        s = self.pool[self.i]
        self.i += 1
        return s


def _builder(lab, share_aux):
    if not share_aux:
        return Builder(lab)
    if not hasattr(lab, "_aux_pool"):
        lab._aux_pool = []
    return PoolBuilder(lab, lab._aux_pool)


def _make_op(B, name, args):
    if isinstance(B, PoolBuilder):
        B.building = True
        try:
            return _make_op_inner(B, name, args)
        finally:
            B.building = False
    return _make_op_inner(B, name, args)


def _make_op_inner(B, name, args):
    if name in LOCAL:
        B.cur = name
        o = LOCAL[name](B, args)
        B.opi += 1
        return o
    return B.build_op(name, args)


def _prefix(lab, i, inp, pre):
    """Fresh per-source stage giving the operator the element kind it needs (never under test)."""
    if inp == "any":
        return lambda s: s
    if inp == "notif":
        return lambda s: s.pipe(ops.materialize())
    if inp == "obs":
        f = Builder(lab, prefix=f"pre{i}.").inner_factory("inner", pre)
        return lambda s: s.pipe(ops.map(f))
    raise HarnessError(f"input kind {inp}")


# ---------------------------------------------------------------------------------------
# worlds


def _world(case, one, make_ops, inp="any"):
    """make_ops(lab) -> operator function (one factory call). Returns dict with lab, probes, source groups."""
    lab = Lab()
    guard_all(lab)
    smap = _srcmap(case)  # application index -> primary source index (identity unless the case re-applies to one source)
    n = len(smap)  # number of applications
    prim = [lab.source(s) for s in case["srcs"]]
    mark = len(lab.sources)
    aux = []  # per factory call: list of aux sources
    if one:
        f = make_ops(lab)
        aux.append(lab.sources[mark:])
        fs = [f] * n
    else:
        fs = []
        for _ in range(n):
            m0 = len(lab.sources)
            fs.append(make_ops(lab))
            aux.append(lab.sources[m0:])
    nbuild = len(lab.sources)
    pres = [_prefix(lab, k, inp, case.get("pre")) for k in range(len(prim))]
    prefixed = [None] * len(prim)
    applied = [None] * n
    order = []  # applications in the order they really happened (lazy application follows the plan)

    def psrc(k):
        # one object per primary source: applications mapped to the same primary receive the very same source object
        if prefixed[k] is None:
            prefixed[k] = pres[k](prim[k])
        return prefixed[k]

    def app(i):
        if applied[i] is None:
            order.append(i)
            applied[i] = fs[i](psrc(smap[i]))
        return applied[i]

    if not case.get("lazy"):
        for i in range(n):
            app(i)
    probes = []
    pol = {"mode": case.get("inner", "now"), "d": 1}
    for j, act in enumerate(case["plan"]):
        i = act["app"] % n
        if act["k"] == "sub":
            p = lab.probe(f"a{i}.{j}", inner=pol)
            p.app = i
            probes.append(p)
            lab.at(act["at"], (lambda p=p, i=i: p.subscribe(app(i))))
            if act.get("len") is not None:
                lab.at(act["at"] + act["len"], p.dispose)
        elif act["k"] == "connect":
            holder = {}

            def do_connect(i=i, holder=holder):
                holder["d"] = app(i).connect(lab.sched)

            def do_disconnect(holder=holder):
                if "d" in holder:
                    holder["d"].dispose()

            lab.at(act["at"], do_connect)
            if act.get("len") is not None:
                lab.at(act["at"] + act["len"], do_disconnect)
        else:
            raise HarnessError(f"plan action {act}")

    def horizon():
        for p in probes:
            dispose_tree(p)

    lab.at(HORIZON, horizon)
    lab.run()
    return {"lab": lab, "probes": probes, "prim": prim, "aux": aux, "runtime": lab.sources[nbuild:], "order": order}


def _srcmap(case):
    m = case.get("srcmap")
    k = len(case["srcs"])
    if m is None:
        return list(range(k))
    if not m or any(not isinstance(x, int) or x < 0 or x >= k for x in m) or set(m) != set(range(k)):
        raise HarnessError(f"srcmap {m} for {k} sources")
    return list(m)


def _same_source_classes(case, order):
    """Classes of the same-source dimension, from the order in which the applications really happened."""
    smap = _srcmap(case)
    seq = [smap[i] for i in order]
    out = []
    if len(set(smap)) < len(smap):
        out.append("same-source")
    if any(a == b for a, b in zip(seq, seq[1:])):
        out.append("same-source-consecutive")
    if any(seq[p] == seq[q] and any(x != seq[p] for x in seq[p + 1 : q]) for p in range(len(seq)) for q in range(p + 2, len(seq))):
        out.append("same-source-application-between")
    return out


def _judge(case, make_ops, culprit, cls, inp="any"):
    F = _world(case, False, make_ops, inp)
    if F["lab"].inconclusive:
        return SKIP(F["lab"].inconclusive)
    if F["lab"].escaped is not None:
        return SKIP("escaped-in-fresh")
    O = _world(case, True, make_ops, inp)
    if O["lab"].inconclusive:
        return SKIP(O["lab"].inconclusive)
    if runaway([norm_tree(p, 0) for p in F["probes"] + O["probes"]]):
        return SKIP("recursion")
    cls = list(cls) + _same_source_classes(case, F["order"])
    if F["order"] != O["order"]:
        raise HarnessError("application order diverged between worlds")
    n = len(case["srcs"])
    # non-trivial: two applications active over overlapping tick ranges, each delivering >= 1 on_next (FRESH world)
    spans = {}
    for p in F["probes"]:
        if p.sub_tick is None:
            continue
        tr = norm_tree(p, 0)
        if not tree_has_next(tr):
            continue
        last = max([e[0] for e in p.events] + [p.sub_tick])
        a, b = spans.get(p.app, (p.sub_tick, last))
        spans[p.app] = (min(a, p.sub_tick), max(b, last))
    apps = sorted(spans)
    overlap = any(spans[x][0] <= spans[y][1] and spans[y][0] <= spans[x][1] for x in apps for y in apps if x < y)
    nontrivial = overlap
    if len(apps) >= 2:
        cls.append("two-apps-with-elements")
    if overlap:
        cls.append("overlapping-apps")
    if F["runtime"]:
        cls.append("runtime-sources")
    if any(p.inners for p in F["probes"]):
        cls.append("inner-probes")
    if O["lab"].escaped is not None:
        e = O["lab"].escaped
        return FAIL("escaped-when-shared|" + culprit, f"{type(e).__name__}: {e} escaped the scheduler only when one operator object is applied to all sources; case={json.dumps(case)}", classes=cls)
    for k, (pf, po) in enumerate(zip(F["probes"], O["probes"])):
        tf, to = norm_tree(pf, 0), norm_tree(po, 0)
        if pf.sub_tick != po.sub_tick:
            raise HarnessError("plans diverged between worlds")
        if tf != to:
            return FAIL(
                "trace|" + culprit,
                f"subscriber {pf.name} (application {pf.app}, subscribed at {pf.sub_tick}): one shared operator object vs fresh operator per source: {first_diff(to, tf)}; shared={json.dumps(to['t'])} fresh={json.dumps(tf['t'])}; case={json.dumps(case)}",
                classes=cls,
            )
    for i in range(n):
        a, b = sort_intervals(O["prim"][i].subs), sort_intervals(F["prim"][i].subs)
        if a != b:
            return FAIL("source-subs|" + culprit, f"primary source #{i} subscription intervals: shared operator {a} vs fresh operators {b}; case={json.dumps(case)}", classes=cls)
    m = len(O["aux"][0])
    if len(F["aux"][0]) != m or any(len(x) not in (0, m) for x in F["aux"]):
        raise HarnessError("aux source count differs between factory calls")
    for j in range(m):
        a = sort_intervals(O["aux"][0][j].subs)
        b = sort_intervals([iv for x in F["aux"] if x for iv in x[j].subs])  # later calls create none when pooled
        if a != b:
            return FAIL("aux-source-subs|" + culprit, f"argument source #{j} {src_key(O['aux'][0][j])}: shared {a} vs union over fresh {b}; case={json.dumps(case)}", classes=cls)
    if runtime_multiset(O["runtime"]) != runtime_multiset(F["runtime"]):
        return FAIL("inner-source-subs|" + culprit, f"sources created by callbacks differ: shared {runtime_multiset(O['runtime'])[:3]} vs fresh {runtime_multiset(F['runtime'])[:3]}; case={json.dumps(case)}", classes=cls)
    return OK(nontrivial, cls)


# ---------------------------------------------------------------------------------------
# check 1: every operator form of the table


def _run_ops(case):
    name, args = case["op"], case["args"]
    if name not in OPS:
        raise HarnessError(f"unknown op {name}")
    o = OPS[name]

    def make(lab):
        return _make_op(_builder(lab, case.get("share_aux")), name, args)

    cls = ["op:" + name] + (["multicast"] if "multicast" in o.tags else []) + (["lazy-application"] if case.get("lazy") else [])
    if case.get("share_aux"):
        cls.append("shared-argument-sources")
        if has_hot(args):
            cls.append("hot-argument-source")
    return _judge(case, make, name, cls, o.inp)


# primaries are mostly non-empty and completing so that aggregates (emit at completion) also yield elements
_prim = s_src(("cold", "cold", "sync", "hot"), max_len=5, min_len=1, terminal=("C", "C", "C", "E", None))


def _plan(n, connects):
    @st.composite
    def _p(draw):
        acts = []
        for i in range(n):
            acts.append({"k": "sub", "app": i, "at": draw(st.integers(0, 8)), "len": draw(st.one_of(st.none(), st.integers(0, 8)))})
        for _ in range(draw(st.integers(0, 2))):
            acts.append({"k": "sub", "app": draw(st.integers(0, n - 1)), "at": draw(st.integers(0, 8)), "len": draw(st.one_of(st.none(), st.integers(0, 8)))})
        if connects:
            for i in range(n):
                if draw(st.integers(0, 4)) > 0:
                    acts.append({"k": "connect", "app": i, "at": draw(st.integers(0, 8)), "len": draw(st.one_of(st.none(), st.integers(0, 8)))})
            if draw(st.booleans()):
                acts.append({"k": "connect", "app": draw(st.integers(0, n - 1)), "at": draw(st.integers(0, 10)), "len": draw(st.one_of(st.none(), st.integers(0, 6)))})
        acts = draw(st.permutations(acts))
        return sorted(acts, key=lambda a: a["at"])  # stable: same-tick order is the drawn permutation

    return _p()


@st.composite
def _apps_and_srcs(draw, alias_ok=True):
    """Applications and the primary sources they are applied to.  2 of 3: every application has its own independent
    source.  1 of 3: two (or all three) applications receive the SAME source object - consecutively ([0,0], [0,0,1],
    [1,0,0], [0,0,0]) or with an application to another source in between ([0,1,0]); with lazy application the real
    order follows the plan, so both orders arise from every pattern."""
    if draw(st.integers(0, 2)) > 0 or not alias_ok:
        n = draw(st.integers(2, 3))
        smap = None
        k = n
    else:
        smap = draw(st.sampled_from([[0, 0], [0, 0], [0, 0, 1], [1, 0, 0], [0, 1, 0], [0, 1, 0], [0, 0, 0]]))
        n = len(smap)
        k = max(smap) + 1
    return n, smap, [draw(_prim) for _ in range(k)]


BUILD_OS = {"merge", "concat", "zip", "combine_latest", "with_latest_from", "fork_join"}  # "os" = build-time sources


def _hotify(name, args):
    """Build-time argument sources become hot (timeline read as absolute ticks).  Spec lists handed to inner
    factories (sources created per callback invocation: "os" of the other operators, "l", "r") are left alone."""

    def hot(v):
        if isinstance(v, dict) and set(v.keys()) == {"kind", "tl"}:
            return {"kind": "hot", "tl": v["tl"]}
        return v

    out = {}
    for k, v in args.items():
        if k == "os" and name in BUILD_OS:
            out[k] = [hot(x) for x in v]
        elif k in ("os", "l", "r"):
            out[k] = v
        else:
            out[k] = hot(v)
    return out


def _fix_args(name, args, share_aux=False):
    if share_aux == 2:
        args = _hotify(name, args)
    elif not share_aux:
        args = coldify(args)
    if name in ("window_when", "buffer_when"):
        args = dict(args, os=args["os"][:1])
    return args


def _ops_cases(name):
    o = OPS[name]

    @st.composite
    def _c(draw):
        share = draw(st.sampled_from([0, 0, 0, 1, 2]))  # 0: fresh cold aux per factory call; 1: pooled as drawn; 2: pooled, all hot
        args = _fix_args(name, draw(o.args), share)
        # while_do/do_while: the harness condition counts per source OBJECT (user state), so two applications to one
        # source object would share the user's counter in world ONE only - not operator state; not generated
        n, smap, srcs = draw(_apps_and_srcs(alias_ok=name not in LOCAL))
        case = {"op": name, "args": args, "share_aux": share, "srcs": srcs, "plan": draw(_plan(n, False)), "lazy": draw(st.booleans()), "inner": draw(st.sampled_from(["now", "now", "late"]))}
        if smap is not None:
            case["srcmap"] = smap
        if o.inp == "obs":
            case["pre"] = draw(s_inners(("cold", "cold", "sync")))
        return case

    return _c()


# ---------------------------------------------------------------------------------------
# check 2: connectable forms with explicit connect calls

CONN_FORMS = {
    "publish": st.just({}),
    "replay": st.fixed_dictionaries({"n": st.one_of(st.none(), s_count), "w": st.one_of(st.none(), s_dur1)}),
    "publish_value": st.fixed_dictionaries({"v": s_val}),
    "ref_count": st.fixed_dictionaries({"under": st.sampled_from(["publish", "replay", "publish_value"])}),
    "publish|ref_count": st.just({}),
    "replay|ref_count": st.fixed_dictionaries({"n": st.one_of(st.none(), s_count)}),
}


def _conn_factory(lab, form, a):
    """One *factory call*: returns the operator function whose reuse is under test."""
    if form == "publish":
        return ops.publish()
    if form == "replay":
        return ops.replay(buffer_size=a["n"], window=lab.rel(a["w"]) if a["w"] else None, scheduler=lab.sched)
    if form == "publish_value":
        return ops.publish_value(val(a["v"]))
    if form == "ref_count":
        rc = ops.ref_count()
        under = {"publish": lambda: ops.publish(), "replay": lambda: ops.replay(2, scheduler=lab.sched), "publish_value": lambda: ops.publish_value("init")}[a["under"]]
        # the connectable below ref_count is always fresh per source; only ref_count() is shared/fresh
        return lambda src: rc(under()(src))
    if form == "publish|ref_count":
        pub, rc = ops.publish(), ops.ref_count()  # two shared operator objects, composed by hand
        return lambda src: rc(pub(src))
    if form == "replay|ref_count":
        rp, rc = ops.replay(buffer_size=a["n"], scheduler=lab.sched), ops.ref_count()
        return lambda src: src.pipe(rp, rc)
    raise HarnessError(f"connectable form {form}")


def _run_conn(case):
    form, a = case["form"], case["args"]

    def make(lab):
        return _conn_factory(lab, form, a)

    cls = ["form:" + form]
    if any(x["k"] == "connect" and x.get("len") is not None for x in case["plan"]):
        cls.append("disconnect")
    return _judge(case, make, form, cls)


@st.composite
def _conn_cases(draw):
    form = draw(st.sampled_from(sorted(CONN_FORMS)))
    n, smap, srcs = draw(_apps_and_srcs())
    explicit = "ref_count" not in form
    case = {"form": form, "args": draw(CONN_FORMS[form]), "srcs": srcs, "plan": draw(_plan(n, explicit)), "lazy": draw(st.booleans()), "inner": "now"}
    if smap is not None:
        case["srcmap"] = smap
    return case


# ---------------------------------------------------------------------------------------
# check 3: operator objects built by composition (reactivex.compose / ops.compose / a reusable pipe fragment)

COMPOSE_KINDS = ["compose", "nested", "ops.compose", "single"]


def _run_compose(case):
    chain = case["chain"]

    def make(lab):
        B = _builder(lab, case.get("share_aux"))
        fs = [_make_op(B, name, args) for name, args in chain]
        k = case["kind"]
        if k == "compose":
            return reactivex.compose(*fs)
        if k == "ops.compose":
            return ops.compose(*fs)
        if k == "nested":
            return reactivex.compose(reactivex.compose(*fs[:1]), reactivex.compose(*fs[1:]))
        if k == "single":
            return reactivex.compose(fs[0]) if len(fs) == 1 else reactivex.compose(reactivex.compose(), *fs)
        raise HarnessError(f"compose kind {k}")

    cls = ["kind:" + case["kind"], f"stages:{len(chain)}"] + (["multicast"] if any("multicast" in OPS[n].tags for n, _ in chain) else [])
    if case.get("share_aux"):
        cls.append("shared-argument-sources")
        if has_hot(chain):
            cls.append("hot-argument-source")
    return _judge(case, make, "compose:" + ",".join(sorted({n for n, _ in chain}))[:60], cls)


@st.composite
def _compose_cases(draw):
    from vlib.pipes import pipelines

    share = draw(st.sampled_from([0, 0, 0, 1, 2]))
    pc = draw(pipelines(max_ops=3, min_ops=1, roots=["single"], max_len=1))
    chain = [[n, _fix_args(n, a, share)] for n, a in pc["ops"]]
    n, smap, srcs = draw(_apps_and_srcs(alias_ok=not any(nm in LOCAL for nm, _ in chain)))
    case = {"kind": draw(st.sampled_from(COMPOSE_KINDS)), "chain": chain, "share_aux": share, "srcs": srcs, "plan": draw(_plan(n, False)), "lazy": draw(st.booleans()), "inner": "now"}
    if smap is not None:
        case["srcmap"] = smap
    return case


# ---------------------------------------------------------------------------------------
# check 4: ops.to_future() - an operator object whose applications return Futures - reused across event loops


def _tf_world(case, one):
    """Applies to_future operator object(s) to logged sources, group by group.  A group runs either inside its own
    asyncio.run() (a fresh running loop) or with no running loop (a fresh, non-running current loop is installed so the
    process-global asyncio policy state left by earlier runs cannot matter).  Deterministic: no threads, virtual time."""
    import asyncio
    import concurrent.futures
    import warnings

    lab = Lab()
    guard_all(lab)
    n = len(case["srcs"])
    prim = [lab.source(sp) for sp in case["srcs"]]

    def factory():
        c = case["ctor"]
        ctor = None if c == "default" else asyncio.Future if c == "asyncio" else concurrent.futures.Future
        return ops.to_future(ctor)

    fs = [factory()] * n if one else [factory() for _ in range(n)]
    rec = {}

    def apply(i, cur_loop):
        r = {}
        try:
            fut = fs[i](prim[i])
        except Exception as e:  # noqa - the application itself failing is an observation
            r["raised"] = [type(e).__name__, str(e)]
            rec[i] = r
            return None
        r["own_loop"] = (fut.get_loop() is cur_loop) if hasattr(fut, "get_loop") else None
        rec[i] = r
        return fut

    def settle(i, fut):
        r = rec[i]
        if fut is None:
            return
        if fut.cancelled():
            r["state"] = "cancelled"
        elif fut.done():
            e = fut.exception()
            r["state"] = ["error", type(e).__name__, str(e)] if e is not None else ["result", strip_obs_(lab.canon(fut.result()))]
        else:
            r["state"] = "pending"

    def drain():
        lab.run()
        if lab.escaped is not None:
            e, lab.escaped = lab.escaped, None
            rec.setdefault("escaped", []).append([type(e).__name__, str(e)])

    with warnings.catch_warnings():
        warnings.simplefilter("ignore")
        for g in case["groups"]:
            idx = [i for i in g["apps"] if i < n and i not in rec]
            if g["env"] == "loop":

                async def main(idx=idx, g=g):
                    loop = asyncio.get_running_loop()
                    futs = [(i, apply(i, loop)) for i in idx]
                    for i, f in futs:
                        if f is not None and i in g.get("cancel", []):
                            f.cancel()
                    await asyncio.sleep(0)
                    drain()
                    await asyncio.sleep(0)
                    for i, f in futs:
                        settle(i, f)
                        if f is not None and f.done() and not f.cancelled() and isinstance(f, asyncio.Future):
                            try:
                                rec[i]["awaited"] = ["result", strip_obs_(lab.canon(await f))]
                            except Exception as e:  # noqa
                                rec[i]["awaited"] = ["error", type(e).__name__, str(e)]

                try:
                    asyncio.run(main())
                except Exception as e:  # noqa - e.g. 'Event loop is closed' surfacing at loop shutdown
                    rec.setdefault("run_raised", []).append([type(e).__name__, str(e)])
            else:
                loop = asyncio.new_event_loop()
                asyncio.set_event_loop(loop)
                try:
                    futs = [(i, apply(i, loop)) for i in idx]
                    for i, f in futs:
                        if f is not None and i in g.get("cancel", []):
                            f.cancel()
                    drain()
                    for i, f in futs:
                        settle(i, f)
                finally:
                    asyncio.set_event_loop(None)
                    loop.close()
    return lab, prim, rec


def strip_obs_(c):
    from vlib.difftools import strip_obs

    return strip_obs(c)


def _run_tofuture(case):
    LF, PF, RF = _tf_world(case, False)
    if LF.inconclusive:
        return SKIP(LF.inconclusive)
    LO, PO, RO = _tf_world(case, True)
    if LO.inconclusive:
        return SKIP(LO.inconclusive)
    envs = []
    for g in case["groups"]:
        envs.append(g["env"])
    cls = ["ctor:" + case["ctor"], "envs:" + ">".join(envs[:3])]
    loops = sum(1 for e in envs if e == "loop")
    if loops >= 2:
        cls.append("two-running-loops")
    if "loop" in envs and "none" in envs[envs.index("loop"):]:
        cls.append("loop-then-no-loop")
    done = [i for i, r in RF.items() if isinstance(i, int) and isinstance(r.get("state"), list) and r["state"][0] == "result"]
    group_of = {}
    for gi, g in enumerate(case["groups"]):
        for i in g["apps"]:
            group_of.setdefault(i, gi)
    nontrivial = len({group_of[i] for i in done}) >= 2
    if nontrivial:
        cls.append("results-in-two-environments")
    if json.dumps(RF, sort_keys=True, default=str) != json.dumps(RO, sort_keys=True, default=str):
        keys = sorted(set(map(str, RF)) | set(map(str, RO)))
        diff = [(k, RO.get(int(k) if k.isdigit() else k), RF.get(int(k) if k.isdigit() else k)) for k in keys]
        diff = [d for d in diff if d[1] != d[2]]
        return FAIL("future-outcome|to_future", f"one shared to_future operator object vs fresh operator per source: (key, shared, fresh) = {diff[:2]}; case={json.dumps(case)}", classes=cls)
    for i, (a, b) in enumerate(zip(PO, PF)):
        if sort_intervals(a.subs) != sort_intervals(b.subs):
            return FAIL("source-subs|to_future", f"source #{i} subscription intervals: shared {a.subs} vs fresh {b.subs}; case={json.dumps(case)}", classes=cls)
    return OK(nontrivial, cls)


@st.composite
def _tofuture_cases(draw):
    n = draw(st.integers(2, 3))
    srcs = [draw(s_src(("sync", "cold", "sync"), max_len=3, terminal=("C", "C", "C", "E", None))) for _ in range(n)]
    order = draw(st.permutations(list(range(n))))
    groups = []
    k = 0
    while k < n:
        size = draw(st.integers(1, 2))
        apps = list(order[k : k + size])
        k += size
        groups.append({"env": draw(st.sampled_from(["loop", "loop", "none"])), "apps": apps, "cancel": [i for i in apps if draw(st.integers(0, 5)) == 0]})
    return {"ctor": draw(st.sampled_from(["default", "default", "asyncio", "concurrent"])), "srcs": srcs, "groups": groups}


def checks(tier):
    # one check per operator form so that every form gets the same budget (a single sampled_from over the
    # table was measured to give some forms 2 cases and others 130)
    out = [Check("op." + name, _run_ops, strategy=_ops_cases(name), examples={"quick": 48, "thorough": 3200}, shards={"quick": 8, "thorough": 16}) for name in sorted(OPS)]
    out.append(Check("connectable", _run_conn, strategy=_conn_cases(), examples={"quick": 1600, "thorough": 16 * 6000}, shards={"quick": 8, "thorough": 16}))
    out.append(Check("to_future", _run_tofuture, strategy=_tofuture_cases(), examples={"quick": 400, "thorough": 16 * 1500}, shards={"quick": 8, "thorough": 16}))
    out.append(Check("compose", _run_compose, strategy=_compose_cases(), examples={"quick": 1200, "thorough": 16 * 5000}, shards={"quick": 8, "thorough": 16}))
    return out
