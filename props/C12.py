"""C12 Switching forwards only the latest inner sequence."""
from __future__ import annotations

import json

from hypothesis import strategies as st

from reactivex import operators as ops

from vlib.core import FAIL, OK, SKIP, Check, HarnessError
from vlib.hoc import POLICIES, TSource, all_subs, draw_outer, draw_second, exact_trace, inner_specs, second_tick, simulate, subs_cover
from vlib.lab import Lab

PROPERTY_ID = "C12"
LEVEL = "exploration"
RULE = (
    "Generated: 1-4 (thorough 1-5) inner traced sources (cold / synchronous / hot / subject = hot backed by a real Subject whose late subscribers get its terminal at once / subsched = time-based inner running on the scheduler handed down by subscribe(scheduler=...) / leaky = keeps pushing after it was unsubscribed, the "
    "only way to present a stale inner's notification in a single-threaded run; 0-4 (thorough 0-6) distinct ints each, gaps 0-3, terminal "
    "completion / error / none) and an outer timeline (cold / synchronous / hot, 0-5 (thorough 0-7) elements selecting inners, terminal "
    "completion / error / none); forms switch_latest, switch_map (mapper and default-identity forms), switch_map_indexed, "
    "flat_map_latest; subscribed at a generated tick on the virtual scheduler (TestScheduler; one case in five on a HistoricalScheduler with 1 ms ticks). Oracle: an independent discrete-event "
    "reference (plain Python, own priority queue) of 'forward only the latest inner' gives the exact expected trace "
    "(elements, ticks, terminal: completion only once the outer completed and the latest inner completed, error of the "
    "current inner or of the outer terminates, a stale inner's notifications - incl. its error and completion - are "
    "ignored); from the logs: every arriving inner is subscribed at its arrival tick in arrival order, and an inner that "
    "was still running when its successor arrived is unsubscribed at the successor's arrival tick and before (global seq) "
    "the successor is subscribed. Queued same-instant ties (an inner event and an outer event at one tick) are accepted "
    "under any of the consistent orders fifo / outer-first / inner-first. In about a third of the cases (hot sources "
    "turned cold) the SAME built observable is subscribed a second time - after the first subscription terminated, or "
    "overlapping it - and both probes are judged by the same oracle with their own subscribe tick. Non-trivial: >= 1 inner was cut short by a successor. Check det (Engine DET, vlib/det.py: line-level yield points in reactivex, cooperative locks, Subjects created after patching): outer Subject and inner Subjects A, B; before the race (one thread) the outer delivers A and A emits 100; race: the outer's thread delivers B (and then completes the outer, variant outer_c=thread) || A's own thread makes 1-2 calls on A (C / N,C / E / N); after the race (one thread) B emits 200, the outer completes (variant outer_c=post), B emits 201, B completes; forms switch_latest (after map), switch_map, switch_map_indexed, flat_map_latest; either thread scheduled first; EVERY schedule with <= 1 preemption is run (quick: all four A programs for switch_latest, program C for the other forms; thorough: all programs for all forms). Oracle = only what the statement fixes under every placement of A's racing calls relative to B's arrival: output = 100, a PREFIX of A's racing elements, 200, 201, then exactly one completion that does not precede B's completion (B is the latest inner whatever the placement; the outer has completed by then); alternatively, when A errors in the race, 100 + A's elements before it + that error and nothing else (error placed before B's arrival); no deadlock, no escaped exception. Non-trivial there: the two threads overlapped and >= 2 distinct outputs were observed over the schedules. The programs with A's thread first and a completion among A's calls exposed the genuine defect fixed in /repo d810cc3 (inner completion decided outside source.lock)."
)
ASSUMPTIONS = [
    "a Subject-backed inner (kind subject) delivers its terminal at once to a subscriber that arrives after, or during the dispatch of, that terminal (documented Subject behaviour)",
    "inner sources are conforming; 'leaky' inners ignore disposal for emission (they log the unsubscribe) and bypass AutoDetachObserver",
    "subscriptions opened after the output already terminated (a synchronous outer still unwinding) are not judged here (C02/C03)",
    "mapper functions are total and pure (C09 covers raising mappers)",
    "det: each source makes its own calls serially (observer contract); only the outer and ONE inner race (two threads, <= 1 preemption); whether downstream calls overlap is not judged here (C43's subject); CPython GIL, line-level atomicity as stated in vlib/det.py",
]

FORMS = ["switch_latest", "switch_map", "switch_map_identity", "switch_map_indexed", "flat_map_latest"]


def _resolver(case):
    n = len(case["inners"])
    if case["form"] == "switch_map_indexed":
        return lambda p, j: (int(p[2:]) + j) % n
    return lambda p, j: int(p[2:]) % n


def build(case, lab, inners):
    form = case["form"]
    n = len(inners)
    if form in ("switch_latest", "switch_map_identity"):
        outer = TSource(lab, case["outer"], "outer", decode=lambda name: inners[int(name[2:]) % n])
        return outer.pipe(ops.switch_latest() if form == "switch_latest" else ops.switch_map())
    outer = TSource(lab, case["outer"], "outer")
    if form == "switch_map":
        op = ops.switch_map(lab.fn("mapper", lambda x: inners[x % n]))
    elif form == "switch_map_indexed":
        op = ops.switch_map_indexed(lab.fn("mapper", lambda x, i: inners[(x + i) % n]))
    elif form == "flat_map_latest":
        op = ops.flat_map_latest(lab.fn("mapper", lambda x: inners[x % n]))
    else:
        raise HarnessError(form)
    return outer.pipe(op)


def _judge(case, op, p, subs, logs=True):
    exp = exact_trace(op)
    got = p.trace()
    if got != exp:
        ge, ee = [e for e in got if e[1] == "N"], [e for e in exp if e[1] == "N"]
        gt, et = [e for e in got if e[1] != "N"], [e for e in exp if e[1] != "N"]
        if ge != ee:
            extra = [e for e in ge if e not in ee]
            missing = [e for e in ee if e not in ge]
            clause = "stale-or-extra-element" if extra and not missing else ("missing-element" if missing and not extra else "elements")
        elif not et and gt:
            clause = "spurious-terminal:" + gt[0][1]
        elif et and not gt:
            clause = "missing-terminal:" + et[0][1]
        elif et[0][1] != gt[0][1]:
            clause = f"terminal-kind:{et[0][1]}->{gt[0][1]}"
        elif et[0][0] != gt[0][0]:
            clause = "terminal-tick:" + et[0][1]
        else:
            clause = "terminal"
        return ("trace:" + clause, f"expected {exp} got {got}")
    if not logs:
        return subs_cover(op, subs)
    tseq = p.terminal()[3] if p.terminal() else None
    before = [d for d in subs if tseq is None or d["sub_seq"] < tseq]
    gseq = [(d["src"], d["sub"]) for d in before]
    eseq = [(op.arrivals[j]["src"], op.arrivals[j]["arr"]) for j in op.started]
    if gseq != eseq:
        clause = "subscribe-tick" if [x[0] for x in gseq] == [x[0] for x in eseq] else "subscribed-set"
        return ("subs:" + clause, f"expected inner (src, arrival tick) {eseq} got {gseq}")
    for d, j in zip(before, op.started):
        a = op.arrivals[j]
        if a["cut"] is None:
            continue
        nxt = before[op.started.index(a["cut"])]
        if d["unsub"] is None or d["unsub"] != nxt["sub"]:
            return ("subs:previous-not-unsubscribed-at-arrival", f"inner i{d['src']} [{d['sub']},{d['unsub']}] should end at {nxt['sub']} when i{nxt['src']} arrived")
        if d["unsub_seq"] > nxt["sub_seq"]:
            return ("subs:previous-unsubscribed-after-next-subscribed", f"inner i{d['src']} unsub seq {d['unsub_seq']} > next sub seq {nxt['sub_seq']}")
    return None


def _run(case):
    form = case["form"]
    t0 = case["t0"]
    sec = case.get("second")
    mode2 = t2 = None
    if sec:
        ref = simulate(case["outer"], case["inners"], _resolver(case), t0, "fifo", "switch")
        mode2, t2 = second_tick(sec, t0, ref.term[0] if ref.term else None)
    lab = Lab("hist", tick_s=0.001) if case.get("clock") == "hist" else Lab()
    inners = [TSource(lab, spec, f"i{i}") for i, spec in enumerate(case["inners"])]
    o = build(case, lab, inners)
    p = lab.probe()
    lab.expect_sched = True
    lab.at(t0, lambda: p.subscribe(o))
    p2 = None
    s2 = [None]
    if sec:
        p2 = lab.probe("p2")

        def sub2():
            s2[0] = lab.next_seq()
            p2.subscribe(o)

        lab.at(t2, sub2)
    lab.run()
    if lab.inconclusive:
        return SKIP(lab.inconclusive)
    if lab.escaped is not None:
        raise lab.escaped
    for q in (p, p2):
        if q is not None:
            ok_g, msg = q.grammar_ok()
            if not ok_g:
                return FAIL(f"grammar|{form}", f"{msg} case={case}")
    subs = all_subs(inners)
    separable = True
    if sec:
        separable = mode2 == "after" and p.terminal() is not None and p.terminal()[3] < s2[0]
    plan = [(p, t0, [d for d in subs if not sec or not separable or d["sub_seq"] < s2[0]], "" if not sec else ":1st-of-2-subscriptions")]
    if sec:
        plan.append((p2, t2, [d for d in subs if not separable or d["sub_seq"] > s2[0]], ":2nd-subscription"))
    chosen = None
    for q, tq, qsubs, suffix in plan:
        first_bad = None
        got_ok = None
        for pol in POLICIES:
            op = simulate(case["outer"], case["inners"], _resolver(case), tq, pol, "switch")
            bad = _judge(case, op, q, qsubs, logs=separable)
            if bad is None:
                got_ok = (pol, op)
                break
            if first_bad is None:
                first_bad = bad
        if got_ok is None:
            return FAIL(f"{first_bad[0]}|{form}{suffix}", f"{first_bad[1]} (subscribed at {tq}) case={case}")
        if chosen is None:
            chosen = got_ok
    pol, op = chosen
    cls = [form, "policy:" + pol, "clock:" + case.get("clock", "test")]
    if any(x.kind == "subsched" and x.handles for x in op.inners):
        cls.append("subsched-inner")
    ssrc = [x for x in op.inners if x.kind == "subject" and x.handles]
    if ssrc:
        cls.append("subject-inner")
        if any(x.late_subs for x in ssrc):
            cls.append("subject-inner:late-subscriber-gets-terminal")
    if sec:
        cls.append("2nd-subscription:" + mode2 + ("" if separable or mode2 == "overlap" else "(first-still-running)"))
        if p2.events:
            cls.append("2nd-subscription:saw-events")
    started = [op.arrivals[j] for j in op.started]
    cuts = sum(1 for a in started if a["cut"] is not None)
    if cuts:
        cls.append("inner-cut-by-successor")
    if cuts >= 2:
        cls.append("cuts>=2")
    if op.stale_seen:
        cls.append("stale-notification-ignored")
    if op.stale_err:
        cls.append("stale-error-ignored")
    if op.term is None:
        cls.append("ends-open")
    else:
        cls.append("ends-" + op.term[1] + (":outer" if op.term[3] == "outer" else (":inner" if op.term[1] == "E" else "")))
        if op.term[1] == "C" and started:
            lt = started[-1]["h"].term
            cls.append("C:outer-last" if lt is None or op.oh.term >= lt else "C:inner-last")
    for a in started:
        if a["cut"] is not None:
            tl = case["inners"][a["src"]]["tl"]
            off = 0 if case["inners"][a["src"]]["kind"] in ("hot", "subject") else a["sub"]
            nxt = op.arrivals[a["cut"]]["arr"]
            if any(t + off == nxt for t, _, _ in tl):
                cls.append("tie:inner-event-at-switch-instant")
                break
    for k in sorted(set(case["inners"][a["src"]]["kind"] for a in started)):
        cls.append("inner:" + k)
    if any(a["sub"] == op.arrivals[a["cut"]]["arr"] for a in started if a["cut"] is not None):
        cls.append("replaced-at-own-arrival-instant")
    return OK(cuts >= 1, cls)


_KINDS = ("cold", "cold", "sync", "hot", "leaky", "cold", "subject", "subsched")


@st.composite
def _cases(draw, big=False):
    inn = draw(inner_specs(max_inners=5, max_len=6, kinds=_KINDS) if big else inner_specs(kinds=_KINDS))
    form = draw(st.sampled_from(FORMS))
    c = draw_second(draw, {"form": form, "inners": inn, "t0": draw(st.integers(0, 3)), "outer": draw_outer(draw, len(inn), max_len=7 if big else 5)})
    if draw(st.integers(0, 4)) == 0:
        c["clock"] = "hist"
    return c


# ---- Engine DET: outer and current inner delivering from two different threads -------------------------------------
_DET_FORMS = ["switch_latest", "switch_map", "switch_map_indexed", "flat_map_latest"]


def _det_build(form, outer, inners):
    if form == "switch_latest":
        return outer.pipe(ops.map(lambda x: inners[x]), ops.switch_latest())
    if form == "switch_map":
        return outer.pipe(ops.switch_map(lambda x: inners[x]))
    if form == "switch_map_indexed":
        return outer.pipe(ops.switch_map_indexed(lambda x, i: inners[x]))
    if form == "flat_map_latest":
        return outer.pipe(ops.flat_map_latest(lambda x: inners[x]))
    raise HarnessError(form)


def _det_run(case):
    """case = {"form", "a": ["N"|"C"|"E", ...] calls made on inner A by its own thread, "outer_c": "thread"|"post",
    "first": "outer"|"inner", "K"}.  Before the race (one thread): subscribe, outer delivers A, A emits 100.  Race: the
    outer thread delivers B (then completes the outer if outer_c == "thread") || A's thread makes the calls in "a".
    After the race (one thread again): B emits 200, the outer completes (if outer_c == "post"), B emits 201, B completes."""
    from reactivex.subject import Subject

    from vlib import det

    form, a_ops, outer_c, K = case["form"], case["a"], case["outer_c"], case["K"]
    a_vals = [101 + i for i, o in enumerate(a_ops) if o == "N"]
    kw = dict(max_steps=6000, reuse_threads=True, wall_timeout=30.0)

    def factory():
        det.fresh_thread_state()
        outer, a, b = Subject(), Subject(), Subject()  # created while patched: cooperative locks
        got = []
        _det_build(form, outer, [a, b]).subscribe(lambda v: got.append(["N", v]), lambda e: got.append(["E", str(e)]), lambda: got.append(["C"]))
        outer.on_next(0)
        a.on_next(100)

        def t_outer():
            outer.on_next(1)
            if outer_c == "thread":
                outer.on_completed()

        def t_inner():
            for i, o in enumerate(a_ops):
                if o == "N":
                    a.on_next(101 + i)
                elif o == "C":
                    a.on_completed()
                else:
                    a.on_error(RuntimeError("ea"))

        return ([t_outer, t_inner] if case["first"] == "outer" else [t_inner, t_outer]), {"outer": outer, "b": b, "got": got}

    def finish(ctx):
        b, got = ctx["b"], ctx["got"]
        marks = {}
        b.on_next(200)
        if outer_c == "post":
            ctx["outer"].on_completed()
        marks["before_201"] = len(got)
        b.on_next(201)
        marks["before_b_completed"] = len(got)
        b.on_completed()
        return marks

    def judge(res, ctx):
        if res.deadlock:
            return "deadlock", f"{res.deadlock}"
        if res.exceptions:
            return "exception", f"{res.exceptions}"
        got = ctx["got"]
        raced = list(got)
        marks = finish(ctx)
        # A's error may be linearized before B's arrival: then it is the current inner's error and ends the output
        if "E" in a_ops:
            k = a_ops.index("E")
            if got == [["N", 100]] + [["N", v] for v in a_vals if v < 101 + k] + [["E", "ea"]]:
                return None
        # otherwise: a prefix of A's racing elements (those placed before B's arrival), then everything B emits, and
        # completion exactly at B's completion (the outer has completed by then and B is the latest inner)
        if ["C"] in got and got.index(["C"]) < marks["before_b_completed"]:
            return "completed-before-latest-inner-completed", f"output completed while the latest inner was still running: {got} (during the race: {raced})"
        if any(e[0] == "E" for e in got):
            return "stale-or-unexpected-error", f"{got}"
        vals = [e[1] for e in got if e[0] == "N"]
        bs = [v for v in vals if v >= 200]
        if bs != [200, 201]:
            return "latest-inner-element-lost", f"latest inner emitted 200, 201; output {got}"
        as_ = vals[: len(vals) - 2]
        if vals[-2:] != [200, 201] or as_ != [100] + a_vals[: len(as_) - 1]:
            return "elements", f"expected 100, a prefix of {a_vals}, 200, 201; output {got}"
        if got[-1] != ["C"] or got.count(["C"]) != 1:
            return "missing-completion", f"outer and latest inner completed; output {got}"
        return None

    runs = overlap = incomplete = 0
    seen = set()
    with det.patched():
        for s, res, ctx in det.explore(factory, K=K, **kw):
            if runs == 0:
                res_b, _ = det.run_checked(factory, s, **kw)
                if res_b.fingerprint() != res.fingerprint():
                    raise HarnessError("C12 det: base run not deterministic")
            runs += 1
            overlap += res.overlapped()
            if not res.complete and not res.deadlock:
                incomplete += 1
                continue
            bad = judge(res, ctx)
            if bad is not None:
                res2, ctx2 = det.run_checked(factory, s, **kw)
                bad2 = judge(res2, ctx2)
                if bad2 is None or bad2[0] != bad[0]:
                    raise HarnessError(f"C12 det: verdict not reproducible for schedule {s}: {bad} vs {bad2}")
                return FAIL(f"race:{bad[0]}|{form}", f"{bad[1]}; schedule={s}; {res2.describe()}; case={case}", classes=["det"])
            seen.add(json.dumps(ctx["got"]))
    if incomplete:
        return SKIP("budget")
    cl = ["det", "det:" + form, f"det:K{K}", "det:outer-completes-" + outer_c, f"det:outcomes:{min(len(seen), 3)}"] + [f"det:runs>={n}" for n in (10, 100) if runs >= n]
    return OK(overlap > 0 and len(seen) >= 2, cl)


_DET_A = [["C"], ["N", "C"], ["E"], ["N"]]
# The programs with A's thread scheduled first and a completion among A's calls exposed a genuine defect of the operator
# (inner on_completed did check-then-act on latest/has_latest outside source.lock: completion while B was running),
# fixed in /repo d810cc3; mutants/C12-inner-completion-check-outside-lock.diff reverts that fix.


def _det_cases(tier):
    for form in _DET_FORMS:
        for a in _DET_A if tier == "thorough" or form == "switch_latest" else _DET_A[:1]:
            for outer_c in ("thread", "post"):
                for first in ("outer", "inner"):
                    yield {"form": form, "a": a, "outer_c": outer_c, "first": first, "K": 1}


def checks(tier):
    return [
        Check("switch", _run, strategy=_cases(tier == "thorough"), examples={"quick": 3200, "thorough": 16 * 30000}, shards={"quick": 4, "thorough": 16}),
        Check("det", _det_run, cases=_det_cases, shards={"quick": 4, "thorough": 8}, exhaustive=True),
    ]
