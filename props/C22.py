"""C22 A ReplaySubject replays exactly its retained values, in order (Engine HIST on a TestScheduler)."""
from __future__ import annotations

from vlib.core import Check
from vlib.hist_subjects import det_race, enumerate_histories, histories, run_history

PROPERTY_ID = "C22"
LEVEL = "exploration"
RULE = (
    "Generated (Hypothesis): histories of 1..40 (quick) / 1..120 (thorough) commands sub(behaviour)/unsub(i)/on_next(v)/"
    "on_error/on_completed/dispose/adv(dt in {0,1,2,3,5}) on ReplaySubject(buffer_size in {None,0..5}, window in "
    "{None,0,1,2,3,5,8,50} ticks, scheduler=TestScheduler from vlib.lab.Lab); commands run at top level, 'adv' drains the "
    "scheduler then advances the clock, so subscribe/emit/unsubscribe may pile up in one instant before a drain; observers "
    "may unsubscribe themselves / a plain observer / subscribe a new observer inside their k-th callback. Enumerated: every "
    "sequence of length <= 4 for buffer_size in {None,0,1} x window in {None,0,1} (quick) / <= 5 for buffer_size in "
    "{None,0,1,2} x window in {None,0,1,2} (thorough) over an 8-symbol alphabet. Oracle: explicit model keeping the full (time,value) history; a subscriber's queue starts with "
    "retained = the last buffer_size values whose age (now - emission time) is <= window at subscription, then the terminal "
    "if one occurred, then every later notification; compared after EVERY command incl. each drain and a final drain "
    "(delivered lists exact; for an observer unsubscribed by ANOTHER observer during a drain: a prefix of its queue, no "
    "shorter than before the drain, nothing after the unsubscribe). reentrant / reentrant_enum: the same with "
    "observers that call subject.on_next/on_completed/on_error from inside their k-th handler (one armed emitter per "
    "history, other observers plain or unsubscribe-self): the emission joins the history at the current virtual time and "
    "is queued to every current subscriber after what is already queued; after every drain nothing may be stranded. "
    "Non-trivial: some subscription's replay is a strict, non-empty subset of the values emitted so far, or a re-entrant "
    "emission was made. "
    "A third check (falsy_error, run last) repeats short histories in which on_error is given a valid exception object whose "
    "truth value is False (it defines __len__ == 0). hist_clock / hist_enum: the same histories on a HistoricalScheduler (datetime clock, 1 tick = 1 ms, window given as a "
    "timedelta). default_sched: ReplaySubject(buffer_size) without scheduler argument (current-thread trampoline, window None): every "
    "command is drained before it returns, same model. det: Engine DET, thread A subscribe(recorder) || thread B 1-2 emitting calls "
    "on a scheduler-less ReplaySubject that already holds 0-2 values, all schedules with <=1 preemption (<=2 for the three smallest programs in thorough); the "
    "subscriber's list must be the sequential model's list for SOME position of its subscribe (replay first, then later notifications, "
    "no duplicate, no reordering). reentrant_default (and the clock=default configurations of reentrant_enum): the re-entrant emitter on the "
    "scheduler-less subject, where delivery is synchronous: every subscriber must still see the values in the order in which the "
    "subject accepted them (= the order it replays to a late subscriber). Histories also terminate through the public "
    "Observer.fail(e). Distinct = distinct case JSON."
)
ASSUMPTIONS = [
    "window and clock are integer ticks on a TestScheduler; 'within the window' is inclusive (age == window is retained), as in ReplaySubject._trim",
    "notifications already queued for a subscriber when the subject is disposed are still delivered (they were emitted before dispose)",
    "the order in which one drain serves different subscribers is not part of the property; in-callback unsubscribe-other therefore only targets plain/unsubscribe-self observers and is judged by the prefix rule",
    "cases reaching 90 scheduler actions in one drain are discarded as inconclusive (spin guard, C29's business)",
    "default_sched / det: without a scheduler argument the subject delivers on the current-thread trampoline, so every command is fully drained before it returns; only window None is used there (wall clock)",
    "det: one emitting thread only (concurrent emitters break the Rx serialisation contract); line-level interleaving, CPython GIL atomicity",
    "handlers that raise are not exercised here (a raising handler faults the per-subscriber ScheduledObserver and escapes into the scheduler: C32's subject)",
]

_ALPHABET = [
    ["sub", {"k": "plain"}],
    ["sub", {"k": "unsub_self", "at": 1}],
    ["next", "i1"],
    ["next", "none"],
    ["adv", 0],
    ["adv", 1],
    ["error", "e1"],
    ["unsub", 0],
]


def _run(case):
    return run_history("replay", case)


def _enum(tier):
    if tier == "quick":
        cfgs = [{"buf": b, "win": w} for b in (None, 0, 1) for w in (None, 0, 1)]
        return enumerate_histories(_ALPHABET, cfgs, 4)
    cfgs = [{"buf": b, "win": w} for b in (None, 0, 1, 2) for w in (None, 0, 1, 2)]
    return enumerate_histories(_ALPHABET, cfgs, 5)


_RE_ALPHABET = [
    ["sub", {"k": "plain"}],
    ["sub", {"k": "emit", "at": 0, "what": ["next", "i2"]}],
    ["sub", {"k": "emit", "at": 1, "what": ["completed"]}],
    ["next", "i1"],
    ["adv", 0],
    ["adv", 1],
    ["unsub", 0],
]


def _re_enum(tier):
    if tier == "quick":
        cfgs = [{"buf": None, "win": None}, {"buf": 1, "win": 0}, {"buf": None, "win": None, "clock": "default"}]
        return enumerate_histories(_RE_ALPHABET, cfgs, 4)
    cfgs = [{"buf": b, "win": w} for b in (None, 1) for w in (None, 0)] + [{"buf": b, "win": None, "clock": "default"} for b in (None, 1)]
    return enumerate_histories(_RE_ALPHABET, cfgs, 6)


def _hist_enum(tier):
    """The main alphabet again on the datetime clock (HistoricalScheduler, timedelta windows)."""
    cfgs = [{"buf": b, "win": w, "clock": "hist"} for b in (None, 1) for w in (None, 0, 1)]
    return enumerate_histories(_ALPHABET, cfgs, 3 if tier == "quick" else 5)


_DET_PROGRAMS = [
    (None, [["next", "i3"]], [["next", "i0"]]),
    (1, [["next", "i3"]], [["next", "i0"], ["next", "none"]]),
    (1, [["next", "i3"]], [["next", "i0"], ["completed"]]),
    (0, [], [["next", "i0"], ["next", "i1"]]),
    (2, [["next", "i3"], ["next", "none"]], [["next", "i0"], ["error", "e1"]]),
]


def _det_cases(tier):
    def case(buf, before, emits, pre, first, K):
        return {"kind": "replay", "cfg": {"buf": buf, "clock": "default"}, "before": before, "emits": emits, "pre": pre, "first": first, "K": K}

    for buf, before, emits in _DET_PROGRAMS:
        for first in ("sub", "emit"):
            for pre in ((1,) if tier == "quick" else (0, 1, 2)):
                yield case(buf, before, emits, pre, first, 1)
    if tier != "quick":
        # a run has ~400-900 yield points here, so two preemptions are affordable only for the smallest programs
        for buf, before, emits in [(0, [], [["next", "i0"]]), (1, [["next", "i3"]], [["next", "none"]]), (None, [], [["completed"]])]:
            for first in ("sub", "emit"):
                yield case(buf, before, emits, 0, first, 2)


def checks(tier):
    n = 40 if tier == "quick" else 120
    return [
        Check("enum", _run, cases=_enum, shards={"quick": 8, "thorough": 16}, exhaustive=True),
        Check("gen", _run, strategy=histories("replay", n), examples={"quick": 3200, "thorough": 16 * 20000}, shards={"quick": 8, "thorough": 16}),
        Check("reentrant_enum", _run, cases=_re_enum, shards={"quick": 8, "thorough": 16}, exhaustive=True),
        Check("reentrant", _run, strategy=histories("replay", n, reentrant=True), examples={"quick": 1600, "thorough": 16 * 8000}, shards={"quick": 8, "thorough": 16}),
        Check("reentrant_default", _run, strategy=histories("replay", n, reentrant=True, clock="default"), examples={"quick": 800, "thorough": 16 * 8000}, shards={"quick": 8, "thorough": 16}),
        Check("hist_enum", _run, cases=_hist_enum, shards={"quick": 8, "thorough": 16}, exhaustive=True),
        Check("hist_clock", _run, strategy=histories("replay", n, clock="hist"), examples={"quick": 800, "thorough": 16 * 8000}, shards={"quick": 8, "thorough": 16}),
        Check("default_sched", _run, strategy=histories("replay", n, clock="default"), examples={"quick": 800, "thorough": 16 * 8000}, shards={"quick": 8, "thorough": 16}),
        Check("det", det_race, cases=_det_cases, shards={"quick": 8, "thorough": 16}, exhaustive=True),
        # last on purpose: a failure here must not cut the two searches above short
        Check("falsy_error", _run, strategy=histories("replay", 12, falsy_error=True), examples={"quick": 400, "thorough": 16 * 1000}, shards={"quick": 1, "thorough": 16}),
    ]
