"""C20 A Subject broadcasts to exactly the observers subscribed at the time (Engine HIST)."""
from __future__ import annotations

from vlib.core import Check
from vlib.hist_subjects import det_race, enumerate_histories, histories, run_history

PROPERTY_ID = "C20"
LEVEL = "exploration"
RULE = (
    "Generated (Hypothesis, whole command list shrinks as one value): histories of 1..40 (quick) / 1..120 (thorough; an 'active' prefix without terminal/dispose followed by a general tail, mixed minimum lengths, mean ~20/~35) "
    "commands sub(behaviour)/unsub(i)/on_next(v in the full value domain incl. None and falsy values)/on_error/"
    "on_completed/dispose on one Subject, indices resolved modulo the live observers; observer behaviours: plain recorder, "
    "unsubscribe itself / unsubscribe another observer / subscribe a new observer from inside its k-th callback "
    "(k in 0..4). Enumerated: every command sequence of length <= 4 (quick) / <= 6 (thorough) over a 10-symbol alphabet "
    "(4 behaviours at k=0, unsub, next, error, completed, dispose, fail) extended by an 11th symbol, an observer that calls subject.dispose() from inside its first callback (sequences using it: length <= 4 quick / <= 5 thorough). Oracle: an explicit model (observer list in "
    "subscription order, terminal state, disposed flag) executed in lock-step; after EVERY command the received list of "
    "every observer (type-tagged values), the exception raised by the call (DisposedException after dispose for "
    "on_next/on_error/on_completed/subscribe) and the length of subject.observers are compared. Delivery goes to the "
    "observers subscribed when the call is made, skipping those unsubscribed earlier in the same delivery; observers "
    "subscribing during a delivery do not get that notification; after a terminal a subscriber gets only the terminal. "
    "Non-trivial: the history has a subscribe after an accepted on_next AND (an in-callback unsubscribe of a still "
    "subscribed observer fired, or a subscribe after termination). "
    "A third check (falsy_error, run last) repeats short histories in which on_error is given a valid exception object whose "
    "truth value is False (it defines __len__ == 0). det (Engine DET, vlib/det.py: line-level yield points, cooperative locks, subject created after patching): thread A subject.subscribe(recorder) || thread B a fixed list of 1-3 emitting calls, 0/1 observer subscribed beforehand, either thread scheduled first; every schedule with <=1 (quick) / <=2 (thorough) preemptions is run; oracle = linearizability against the same sequential model: the racing subscriber's list must equal the model's list for SOME position of its subscribe in the emitter's call sequence (so its first notification is the value current at registration and nothing earlier follows), earlier subscribers see the sequential outcome, no deadlock/exception; the racing call may also be dispose() on a live / completed / errored subject (allowed: the outcome of subscribing before it, or DisposedException raised or routed to on_error with nothing else); non-trivial = calls overlapped and >=2 distinct outcomes observed. det_error (run last): the same with on_error as the terminal call. raising: histories whose observers are plain except one whose k-th handler raises; checked afterwards: observers served before "
    "it, every later notification to every subscribed observer, terminal / current value for later subscribers; left open: "
    "re-raise to the caller, the rest of that one delivery, the raiser itself; non-trivial there = a notification was delivered in a "
    "later command than the raise. dispose_cb: histories in which some observers call subject.dispose() from inside their k-th callback "
    "(k in 0..3), i.e. possibly in the middle of a broadcast (also in the enumeration). Determined and checked exactly: observers served before the disposer and the disposer itself get the "
    "notification; afterwards the subject is disposed (emitting/subscribing raise DisposedException, nothing more is delivered). For the "
    "observers later in that snapshot both readings are accepted ('subscribed when the call is made' -> they get THIS notification; "
    "dispose() 'unsubscribes all observers' -> they get nothing), but nothing else: an observer that does receive something must receive "
    "exactly the notification being broadcast (on_error(e) stays on_error(e), never on_completed), at most once; its own in-callback action then runs as usual. "
    "Non-trivial there = an observer later in the snapshot than the disposer existed. Histories also terminate through the public "
    "Observer.fail(e) (no effect on a terminated/disposed subject): same terminal clauses as on_error. Distinct = distinct case JSON."
)
ASSUMPTIONS = [
    "observers are attached through the public Observable.subscribe (auto-detaching wrapper included); within one delivery observers are served in subscription order",
    "an unsubscribe requested from inside a callback that runs inside subscribe() takes effect when subscribe() returns (no handle exists before)",
    "after dispose(), subscribe(observer) may either raise DisposedException or (Observable.subscribe's documented routing) deliver it to observer.on_error as the only notification; subscribe(on_next) without an error handler must raise it",
    "callbacks never emit re-entrantly into the subject; a raising callback is only exercised by the dedicated raising check (one raiser, other observers plain)",
    "len(subject.observers) == number of subscribed observers is taken from the property's anchored state ('observers: currently subscribed observers')",
    "when an observer disposes the subject from inside a callback, whether the observers later in that snapshot still get the notification is left open (decided per observer from what the real one received in that command); that they get no OTHER notification, and everything else, is not",
]

_ALPHABET = [
    ["sub", {"k": "plain"}],
    ["sub", {"k": "unsub_self", "at": 0}],
    ["sub", {"k": "unsub_other", "at": 0, "who": 0}],
    ["sub", {"k": "sub_new", "at": 0, "child": {"k": "plain"}}],
    ["unsub", 0],
    ["next", "i0"],
    ["error", "e1"],
    ["completed"],
    ["dispose"],
    ["fail", "e2"],
    ["sub", {"k": "dispose_subject", "at": 0}],
]


def _run(case):
    return run_history("subject", case, check_observers_state=True)


def _enum(tier):
    if tier == "quick":
        yield from enumerate_histories(_ALPHABET, [{}], 4)
        return
    # thorough: the 10 older symbols to length 6 (as before), plus every sequence of length <= 5 that uses the
    # dispose-from-a-callback observer (11^6 would nearly double the enumeration for little extra)
    yield from enumerate_histories(_ALPHABET[:-1], [{}], 6)
    ds = _ALPHABET[-1]
    for case in enumerate_histories(_ALPHABET, [{}], 5):
        if ds in case["cmds"]:
            yield case


_DET_PROGRAMS = [({}, [['next', 'i0']]), ({}, [['next', 'none'], ['next', 'i1']]), ({}, [['next', 'i0'], ['completed']]), ({}, [['completed']])]

_DET_PROGRAMS_THOROUGH = [({}, [["next", "i0"], ["next", "none"], ["completed"]]), ({}, [["next", "f0"], ["next", "i1"], ["next", "i2"]])]

# dispose() from another thread racing the subscribe: (cfg, racing calls, calls made before the race)
_DET_DISPOSE_PROGRAMS = [({}, [["dispose"]], [["error", "e1"]]), ({}, [["next", "i0"], ["dispose"]], []), ({}, [["dispose"]], [["completed"]])]


def _det_cases(tier):
    K = 1 if tier == "quick" else 2
    programs = _DET_PROGRAMS if tier == "quick" else _DET_PROGRAMS + _DET_PROGRAMS_THOROUGH
    for cfg, emits in programs:
        for pre in ((0, 1) if tier == "quick" else (0, 1, 2)):
            for first in ("sub", "emit"):
                yield {"kind": "subject", "cfg": cfg, "emits": emits, "pre": pre, "first": first, "K": K}
    for cfg, emits, before in _DET_DISPOSE_PROGRAMS:
        for first in ("sub", "emit"):
            yield {"kind": "subject", "cfg": cfg, "emits": emits, "before": before, "pre": 1, "first": first, "K": K}


def _det_error_cases(tier):
    K = 1 if tier == "quick" else 2
    for emits in ([["error", "e1"]], [["next", "i0"], ["error", "e1"]]):
        for first in ("sub", "emit"):
            yield {"kind": "subject", "cfg": {}, "emits": emits, "pre": 1, "first": first, "K": K}


def checks(tier):
    n = 40 if tier == "quick" else 120
    return [
        Check("enum", _run, cases=_enum, shards={"quick": 8, "thorough": 16}, exhaustive=True),
        Check("gen", _run, strategy=histories("subject", n), examples={"quick": 3200, "thorough": 16 * 20000}, shards={"quick": 8, "thorough": 16}),
        Check("raising", _run, strategy=histories("subject", n, raising=True), examples={"quick": 800, "thorough": 16 * 6000}, shards={"quick": 8, "thorough": 16}),
        Check("dispose_cb", _run, strategy=histories("subject", min(n, 60), dispose_cb=True), examples={"quick": 800, "thorough": 16 * 6000}, shards={"quick": 8, "thorough": 16}),
        Check("det", det_race, cases=_det_cases, shards={"quick": 8, "thorough": 16}, exhaustive=True),
        # last on purpose: a failure here must not cut the searches above short
        Check("falsy_error", _run, strategy=histories("subject", 12, falsy_error=True), examples={"quick": 400, "thorough": 16 * 1000}, shards={"quick": 1, "thorough": 16}),
        Check("det_error", det_race, cases=_det_error_cases, shards={"quick": 1, "thorough": 4}, exhaustive=True),
    ]
