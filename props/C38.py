"""C38 Marble diagrams mean what the documented syntax says (token-list oracle, independent of the regex parser)."""
from __future__ import annotations

import os
import re
from datetime import datetime, timedelta, timezone
from fractions import Fraction

from hypothesis import strategies as st

import reactivex

from vlib.core import FAIL, OK, SKIP, Check, HarnessError
from vlib.lab import Lab
from vlib.values import NAMES, Tagged, canon, val

PROPERTY_ID = "C38"
LEVEL = "exploration"
RULE = (
    "A case is a token list rendered to a marble string: runs of '-', values (single letters, words, letter+digits, "
    "ints with leading zeros, decimal and exponent floats), '|', '#', comma-separated groups '(a,12,|)' of 0-4 "
    "values/terminals (the empty group '()' holds no marble but its two characters advance time like any other; "
    "whether '()' after a terminal is rejected under raise_stopped is left open by the statement, both accepted), never two plain values adjacent, spaces inserted at arbitrary positions; plus timespan "
    "(default, int, dyadic float, timedelta, non-dyadic 0.1/0.3; for delivery also hours or a day per frame, so that "
    "timelines run past the first day of the virtual clock), time shift (default, int, dyadic float, "
    "timedelta), a lookup dict keyed by the parsed values of some marbles (str/int/float keys) and by absent keys, "
    "an optional error object and raise_stopped. Oracle computed from the token list only: time = index of the "
    "marble's first character in the space-free string (a group's elements: index of its '(') x timespan + shift "
    "(exact for dyadic values, 1e-9 tolerance otherwise); value = int/float/str by token type, then "
    "lookup.get(value, value); '#' carries the given error (default Exception('error')); ValueError iff "
    "raise_stopped and a value/'|'/'#' follows a terminal. parse: messages compared as (time, kind, type-tagged "
    "value). deliver: from_marbles / cold (scheduler by factory argument or by subscribe) subscribed at t0 and again "
    "later -> parsed notifications at t0 + time; hot(duetime relative/timedelta/absolute datetime, created at tick "
    "tc) -> an immediate subscriber sees all at absolute times, a late subscriber exactly those after its "
    "subscription (same-instant ties not judged), all on the TestScheduler or on the HistoricalScheduler (datetime "
    "clock, 1 tick = 1 s); reactivex.testing.marbles_testing cold/hot/start with integer and fractional dyadic "
    "timespans (hot skips a marble at exactly the subscription time 200, as documented; exp() judged for whole-tick "
    "timespans only); marbles after a terminal "
    "make the factories raise ValueError. raw: strings decoded from bytes over the marble alphabet, scanned by a "
    "hand-written scanner for the documented language (strings outside it are counted and not judged), same oracle. "
    "Non-trivial: the diagram has a group or a multi-character value, and a '-' gap. Distinct = distinct case JSON. "
    "atheris (thorough): tokens and raw strategies+oracles driven by libFuzzer via hypothesis.fuzz_one_input, raw "
    "once from an empty corpus and once from marble strings lifted from the repository tests."
)
ASSUMPTIONS = [
    "documented syntax = docstrings of parse/from_marbles/hot/marbles_testing plus tests/test_observable/test_marbles.py: "
    "groups are comma separated, spaces are removed before anything else (so they may split a value), numbers are cast with int() then float()",
    "the empty group '()' is inside the documented syntax: '(' opens and ')' closes a group of elements, every character except a space advances time by one timespan",
    "not generated (undocumented): empty elements inside a non-empty group ('(a,)', '(,)'), '-' or parentheses inside a group, unbalanced parentheses, commas outside groups, "
    "words that float() accepts (nan/inf/infinity), digit-leading alphanumerics other than decimal/exponent floats, underscores, non-ASCII",
    "from_marbles/hot are always given the virtual scheduler (their default is a NewThreadScheduler)",
    "marbles_testing's exp() is only judged with whole-tick timespans (it truncates times with int(), and exp is not named by the statement); cold/hot/start are judged with fractional timespans too",
    "a hot subscriber arriving at exactly the instant of a marble may or may not see it (scheduling order); such ties are excluded from the comparison",
]

EPOCH = datetime(1970, 1, 1, tzinfo=timezone.utc)

# ---------------------------------------------------------------------------------------
# tokens -> string, tokens -> expected messages (the oracle; no use of reactivex here)


def _tok_text(t):
    k = t[0]
    if k == "-":
        return "-" * t[1]
    if k == "v":
        return t[1]
    if k in ("|", "#"):
        return k
    if k == "g":
        return "(" + ",".join(_tok_text(e) for e in t[1]) + ")"
    raise HarnessError(f"token {t}")


def render(toks, spaces=()):
    s = "".join(_tok_text(t) for t in toks)
    for pos, n in sorted(([p % (len(s) + 1), n] for p, n in spaces), reverse=True):
        s = s[:pos] + " " * n + s[pos:]
    return s


def _value_of(t):
    """Python value a value token stands for (numbers are cast to int or float)."""
    _, text, ty = t
    if ty == "s":
        return text
    if ty == "i":
        n = 0
        for ch in text:
            n = n * 10 + (ord(ch) - 48)
        return n
    if ty == "f":
        m = re.fullmatch(r"([0-9]+)(?:\.([0-9]+))?(?:[eE]([0-9]+))?", text)
        if not m:
            raise HarnessError(f"float token {text}")
        ip, fp, ex = m.group(1), m.group(2) or "", int(m.group(3) or 0)
        return float(Fraction(int(ip + fp), 10 ** len(fp)) * 10**ex)
    raise HarnessError(f"value type {ty}")


def expected(toks):
    """-> (messages [[index, kind, token|None]], marble_after_terminal: bool)"""
    pos, out, stopped, after = 0, [], False, False

    def marble(m, at):
        nonlocal stopped, after
        if stopped:
            after = True
        if m[0] == "v":
            out.append([at, "N", m])
        else:
            out.append([at, "C" if m[0] == "|" else "E", None])
            stopped = True

    for t in toks:
        if t[0] == "-":
            pos += t[1]
        elif t[0] == "g":
            for e in t[1]:
                marble(e, pos)
            pos += len(_tok_text(t))
        else:
            marble(t, pos)
            pos += len(_tok_text(t))
    return out, after


def empty_group_after_terminal(toks):
    """An empty group '()' written after a terminal contains no marble. The statement only says that *marbles* after a
    terminal are rejected when asked, so whether such a diagram is rejected is left open: both outcomes are accepted."""
    stopped = False
    for t in toks:
        if t[0] == "g":
            if not t[1] and stopped:
                return True
            if any(e[0] in "|#" for e in t[1]):
                stopped = True
        elif t[0] in "|#":
            stopped = True
    return False


def nontrivial(toks):
    gap = any(t[0] == "-" for t in toks)
    rich = any(t[0] == "g" or (t[0] == "v" and len(t[1]) > 1) for t in toks)
    return gap and rich


# ---------------------------------------------------------------------------------------
# parameters (JSON) -> native / exact


def _num_native(e, default):
    """e: None | ["n", number] | ["td", microseconds] | ["x", "0.1"] -> (native or None (=omit), Fraction seconds, exact?)"""
    if e is None:
        return None, Fraction(str(default)), Fraction(default) == Fraction(str(default))
    k, v = e
    if k == "n":
        return v, Fraction(v), True
    if k == "td":
        fr = Fraction(v, 10**6)  # exact float arithmetic only if the seconds value is dyadic (0.5 s yes, 0.1 s no)
        return timedelta(microseconds=v), fr, (fr.denominator & (fr.denominator - 1)) == 0
    if k == "x":
        return float(v), Fraction(v), False
    raise HarnessError(f"number {e}")


def _lookup_native(enc):
    if enc is None:
        return None
    d = {}
    for key, vname in enc:
        k = key[1] if key[0] in ("s", "i") else float(key[1])
        d[k] = val(vname)
    return d


def _exp_msgs(msgs, ts, shift, lookup, err_tag):
    """index-based messages -> [[Fraction time, kind, canon payload]]"""
    out = []
    for idx, kind, tok in msgs:
        t = idx * ts + shift
        if kind == "N":
            v = _value_of(tok)
            if lookup is not None:
                v = lookup.get(v, v)
            out.append([t, "N", canon(v)])
        elif kind == "E":
            out.append([t, "E", ["exc", err_tag] if err_tag is not None else ["exc", "Exception", "error"]])
        else:
            out.append([t, "C", None])
    return out


def _time_fraction(t):
    if isinstance(t, timedelta):
        return Fraction((t.days * 86400 + t.seconds) * 10**6 + t.microseconds, 10**6)
    if isinstance(t, bool) or not isinstance(t, (int, float)):
        return None
    return Fraction(t)


def _cmp(exp, got, exact, what, case, tol=Fraction(1, 10**9)):
    """exp [[Fraction, kind, canon]], got [[time, kind, canon]] -> None | (clause, msg)"""
    if [e[1:] for e in exp] != [g[1:] for g in got]:
        for i, (e, g) in enumerate(zip(exp, got)):
            if e[1:] != g[1:]:
                return "messages", f"{what}: message #{i} expected {e[1:]} got {g[1:]}"
        return "messages", f"{what}: expected {len(exp)} messages {[e[1:] for e in exp][:6]} got {len(got)} {[g[1:] for g in got][:6]}"
    for i, (e, g) in enumerate(zip(exp, got)):
        tg = _time_fraction(g[0])
        if tg is None:
            return "time-type", f"{what}: message #{i} time {g[0]!r}"
        if (tg != e[0]) if exact else (abs(tg - e[0]) > tol):
            return "time", f"{what}: message #{i} {e[1:]} expected at {float(e[0])} got {g[0]!r}"
    return None


def _notif(n):
    k = n.kind
    if k == "N":
        return ["N", canon(n.value)]
    if k == "E":
        return ["E", canon(n.exception)]
    return ["C", None]


# ---------------------------------------------------------------------------------------
# check: parse


def _run_parse_on(s, toks, case, cls):
    from reactivex.observable.marbles import parse

    msgs, after = expected(toks)
    ts_n, ts, ex1 = _num_native(case.get("ts"), 1.0)
    sh_n, shift, ex2 = _num_native(case.get("shift"), 0.0)
    exact = ex1 and ex2
    lookup = _lookup_native(case.get("lookup"))
    err_tag = case.get("error")
    kw = {}
    if ts_n is not None:
        kw["timespan"] = ts_n
    if sh_n is not None:
        kw["time_shift"] = sh_n
    if lookup is not None:
        kw["lookup"] = lookup
    if err_tag is not None:
        kw["error"] = Tagged(err_tag)
    rs = case.get("rs")
    if rs is not None:
        kw["raise_stopped"] = rs
    want_error = bool(rs) and after
    if after:
        cls.append("marble-after-terminal")
    if lookup:
        hit = any(k == "N" and _value_of(t) in lookup for _, k, t in msgs)
        cls.append("lookup-hit" if hit else "lookup-miss-only")
    if not exact:
        cls.append("non-dyadic-time")
    try:
        got = parse(s, **kw)
    except ValueError as e:
        if want_error:
            return OK(nontrivial(toks), cls + ["ValueError-expected"])
        if rs and empty_group_after_terminal(toks):
            return OK(nontrivial(toks), cls + ["empty-group-after-terminal:rejected(open-in-statement)"])
        return FAIL("unexpected-ValueError|parse", f"parse({s!r}, {kw}) raised ValueError({e}); case={case}", classes=cls)
    if want_error:
        return FAIL("no-ValueError|parse", f"parse({s!r}, raise_stopped=True) accepted a marble after a terminal: {got}; case={case}", classes=cls)
    try:
        got_c = [[t] + _notif(n) for t, n in got]
    except Exception as e:  # noqa
        return FAIL("shape|parse", f"parse({s!r}) returned {got!r} ({e}); case={case}", classes=cls)
    bad = _cmp(_exp_msgs(msgs, ts, shift, lookup, err_tag), got_c, exact, f"parse({s!r}, {kw})", case)
    if bad:
        return FAIL(f"{bad[0]}|parse", f"{bad[1]}; case={case}", classes=cls)
    return OK(nontrivial(toks), cls)


def _shape_classes(toks, spaces):
    cls = []
    if any(t[0] == "g" for t in toks):
        cls.append("has-group")
    if any(t[0] == "g" and any(e[0] in "|#" for e in t[1]) for t in toks):
        cls.append("terminal-in-group")
    if any(t[0] == "v" and len(t[1]) > 1 for t in toks):
        cls.append("multi-char-value")
    if any(t[0] == "v" and t[2] == "f" for t in toks) or any(t[0] == "g" and any(e[0] == "v" and e[2] == "f" for e in t[1]) for t in toks):
        cls.append("float-value")
    if spaces:
        cls.append("has-spaces")
    if any(t[0] == "g" and not t[1] for t in toks):
        cls.append("empty-group")
        k = max(i for i, t in enumerate(toks) if t[0] == "g" and not t[1])
        if any(t[0] != "-" and not (t[0] == "g" and not t[1]) for t in toks[k + 1 :]):
            cls.append("marble-after-empty-group")
    if not toks:
        cls.append("empty-diagram")
    return cls


def _run_parse(case):
    toks, spaces = case["toks"], case.get("sp") or []
    s = render(toks, spaces)
    return _run_parse_on(s, toks, case, _shape_classes(toks, spaces))


# ---------------------------------------------------------------------------------------
# check: deliver


def _probe_events(p):
    return [[e[0], e[1], e[2]] for e in p.events]


def _run_deliver(case):
    toks, spaces = case["toks"], case.get("sp") or []
    s = render(toks, spaces)
    api = case["api"]
    cls = _shape_classes(toks, spaces) + [f"api:{api}"]
    msgs, after = expected(toks)
    lookup = _lookup_native(case.get("lookup"))
    err_tag = case.get("error")
    err = Tagged(err_tag) if err_tag is not None else None
    if after:
        cls.append("marble-after-terminal")
    # the delivered sequence stops at the first terminal (only relevant when nothing follows it: after => ValueError)
    if api in ("ctx_cold", "ctx_hot"):
        return _run_ctx(case, s, toks, msgs, after, lookup, err, err_tag, cls)
    ts_n, ts, exact = _num_native(case.get("ts"), 0.1)
    clock = case.get("clock", "test")
    lab = Lab("hist", tick_s=1.0) if clock == "hist" else Lab()  # hist: HistoricalScheduler, datetime clock, 1 tick = 1 s
    cls.append(f"clock:{clock}")
    kw = {}
    if ts_n is not None:
        kw["timespan"] = ts_n
    if lookup is not None:
        kw["lookup"] = lookup
    if err is not None:
        kw["error"] = err
    if not exact:
        cls.append("non-dyadic-time")
    tol = Fraction(2, 10**6)  # the virtual clock goes through microsecond datetimes
    state = {"raised": None, "obs": None}
    probes = []
    if api in ("from_marbles", "cold"):
        fn = reactivex.from_marbles if api == "from_marbles" else reactivex.cold
        fac_sched = case["mode"] == "fac"
        if fac_sched:
            kw["scheduler"] = lab.sched
        try:
            o = fn(s, **kw)
        except ValueError as e:
            state["raised"] = e
            o = None
        subs = [case["t0"]] + ([case["t0"] + case["gap"]] if case.get("gap") else [])
        if o is not None:
            for i, t in enumerate(subs):
                p = lab.probe(f"p{i}")
                probes.append((p, t))
                lab.at(t, (lambda p=p: p.subscribe(o, scheduler=None if fac_sched else "lab")))
        base = None
    else:  # hot
        du = case["due"]  # ["n", x] | ["td", us] | ["abs", x] | None
        tc = case["t0"]
        if du is None:
            due_n, due = None, Fraction(0)
        elif du[0] == "abs":
            due_n, due = None, None
        else:
            due_n, due, exd = _num_native(du, 0.0)
            exact = exact and exd
        subs = [tc] + ([tc + case["gap"]] if case.get("gap") else [])
        pa = lab.probe("pa")
        probes.append((pa, tc))

        def create():
            k2 = dict(kw)
            if du is not None:
                k2["duetime"] = lab.sched.to_datetime(float(du[1])) if du[0] == "abs" else due_n
            try:
                state["obs"] = reactivex.hot(s, scheduler=lab.sched, **k2)
            except ValueError as e:
                state["raised"] = e
                return
            pa.subscribe(state["obs"], scheduler=None)

        if len(subs) > 1:
            pb = lab.probe("pb")
            probes.append((pb, subs[1]))
            lab.at(subs[1], lambda: state["obs"] is not None and pb.subscribe(state["obs"], scheduler=None))
        lab.at(tc, create)
        base = Fraction(du[1]) if (du is not None and du[0] == "abs") else Fraction(tc) + due
    inc = lab.run()
    if inc:
        return SKIP(inc)
    if lab.escaped is not None:
        e = lab.escaped
        return FAIL(f"escaped:{type(e).__name__}|{api}", f"{type(e).__name__}: {e} escaped into the scheduler for {s!r}; case={case}", classes=cls)
    if after:
        if state["raised"] is None:
            return FAIL(f"no-ValueError|{api}", f"{api}({s!r}) accepted a marble after a terminal; case={case}", classes=cls)
        return OK(nontrivial(toks), cls + ["ValueError-expected"])
    if state["raised"] is not None:
        if empty_group_after_terminal(toks):
            return OK(nontrivial(toks), cls + ["empty-group-after-terminal:rejected(open-in-statement)"])
        return FAIL(f"unexpected-ValueError|{api}", f"{api}({s!r}) raised {state['raised']}; case={case}", classes=cls)
    if len(probes) > 1:
        cls.append("second-subscriber")
    if msgs and (Fraction(case["t0"]) if base is None else base) + msgs[-1][0] * ts >= 86400:
        cls.append("timeline-beyond-one-day")
    for j, (p, t_sub) in enumerate(probes):
        okg, m = p.grammar_ok()
        if not okg:
            return FAIL(f"grammar|{api}", f"{m}; {s!r} case={case}", classes=cls)
        got = _probe_events(p)
        if api == "hot":
            exp = _exp_msgs(msgs, ts, base, lookup, err_tag)
            if j > 0:  # late subscriber: exactly what happens after it arrived; same-instant ties not judged
                exp = [e for e in exp if e[0] > t_sub]
                got = [g for g in got if not abs(Fraction(g[0]) - t_sub) <= tol]
                cls.append("hot-late-subscriber-missed-some" if len(exp) < len(msgs) else "hot-late-subscriber-saw-all")
        else:
            exp = _exp_msgs(msgs, ts, Fraction(t_sub), lookup, err_tag)
        if api == "hot" and j > 0 and exp and exp[-1][1] in "CE" and [g[1:] for g in got] == [e[1:] for e in exp[:-1]] and _probe_events(probes[0][0])[-1:][0][1] in "CE":
            # root cause bucket of its own: an earlier subscriber got the terminal, this one did not
            return FAIL("terminal-not-delivered-to-later-subscriber|hot", f"hot({s!r}, {kw}): subscriber #{j} (subscribed at {t_sub}) received {[g[1:] for g in got]} but never the terminal {exp[-1][1:]} that subscriber #0 received; case={case}", classes=cls)
        bad = _cmp(exp, got, exact, f"{api}({s!r}, {kw}) subscriber #{j} at {t_sub}", case, tol=tol)
        if bad:
            return FAIL(f"{bad[0]}{':late' if j else ''}|{api}", f"{bad[1]}; case={case}", classes=cls)
    return OK(nontrivial(toks), cls)


def _run_ctx(case, s, toks, msgs, after, lookup, err, err_tag, cls):
    from reactivex.testing.marbles import marbles_testing

    ts_n, ts, _ = _num_native(case.get("ts"), 1.0)
    api = case["api"]
    if 200 + len(s.replace(" ", "")) * ts >= 1000:
        return OK(False, cls + ["ctx-diagram-reaches-dispose-time-not-judged"])
    kwctx = {} if ts_n is None else {"timespan": ts_n}
    whole = ts.denominator == 1  # exp() truncates times with int(): only judged for whole-tick timespans
    if not whole:
        cls.append("ctx-fractional-timespan")
    with marbles_testing(**kwctx) as (start, cold, hot, exp):
        try:
            o = (cold if api == "ctx_cold" else hot)(s, lookup, err)
        except ValueError as e:
            if after:
                # exp() does not reject: it parses the full diagram
                recs = exp(s, lookup, err)
                got = [[r.time] + _notif(r.value) for r in recs]
                bad = _cmp(_exp_msgs(msgs, ts, Fraction(200), lookup, err_tag), got, True, f"exp({s!r})", case) if whole else None
                if bad:
                    return FAIL(f"{bad[0]}|exp", f"{bad[1]}; case={case}", classes=cls)
                return OK(nontrivial(toks), cls + ["ValueError-expected"])
            if empty_group_after_terminal(toks):
                return OK(nontrivial(toks), cls + ["empty-group-after-terminal:rejected(open-in-statement)"])
            return FAIL(f"unexpected-ValueError|{api}", f"{api}({s!r}) raised {e}; case={case}", classes=cls)
        if after:
            return FAIL(f"no-ValueError|{api}", f"{api}({s!r}) accepted a marble after a terminal; case={case}", classes=cls)
        recs = exp(s, lookup, err)
        results = start(o)
    full = _exp_msgs(msgs, ts, Fraction(200), lookup, err_tag)
    got = [[r.time] + _notif(r.value) for r in recs]
    bad = _cmp(full, got, True, f"exp({s!r})", case) if whole else None
    if bad:
        return FAIL(f"{bad[0]}|exp", f"{bad[1]}; case={case}", classes=cls)
    want = full
    if api == "ctx_hot":
        want = [e for e in full if e[0] > 200]  # documented: a marble at the subscription instant is skipped
        if len(want) < len(full):
            cls.append("ctx-hot-first-frame-skipped")
    got = [[r.time] + _notif(r.value) for r in results]
    bad = _cmp(want, got, True, f"start({api}({s!r}))", case)
    if bad:
        return FAIL(f"{bad[0]}|{api}", f"{bad[1]}; case={case}", classes=cls)
    return OK(nontrivial(toks), cls)


# ---------------------------------------------------------------------------------------
# check: raw strings + hand-written scanner of the documented language

_NOT_WORDS = {"nan", "inf", "infinity"}


def _classify(text):
    """Value token for a maximal run of non-special characters, or None if the docs/tests do not settle its meaning."""
    if not re.fullmatch(r"[A-Za-z0-9.]+", text):
        return None
    if re.fullmatch(r"[0-9]+", text):
        return ["v", text, "i"]
    if re.fullmatch(r"[0-9]+\.[0-9]+", text) or re.fullmatch(r"[0-9]+(\.[0-9]+)?[eE][0-9]{1,2}", text):
        return ["v", text, "f"]
    try:
        float(text)  # number-like in a form the documentation does not show ('.5', '1.', 'nan', 'inf', '1e999'): not judged
        return None
    except ValueError:
        return ["v", text, "s"]  # not a number under any reading: the characters are the value


def scan(s):
    """Hand-written scanner: token list if `s` is in the documented language, else (None, reason)."""
    s = s.replace(" ", "")
    i, toks = 0, []
    while i < len(s):
        ch = s[i]
        if ch == "-":
            j = i
            while j < len(s) and s[j] == "-":
                j += 1
            toks.append(["-", j - i])
            i = j
        elif ch in "|#":
            toks.append([ch])
            i += 1
        elif ch == "(":
            j = s.find(")", i)
            if j < 0:
                return None, "unbalanced"
            els = []
            for el in s[i + 1 : j].split(",") if j > i + 1 else []:  # '()' is a group without elements
                if el in ("|", "#"):
                    els.append([el])
                else:
                    v = _classify(el)
                    if v is None:
                        return None, "group-element"
                    els.append(v)
            toks.append(["g", els])
            i = j + 1
        elif ch == ")":
            return None, "unbalanced"
        elif ch == ",":
            return None, "comma-outside-group"
        else:
            j = i
            while j < len(s) and s[j] not in "-|#(),":
                j += 1
            v = _classify(s[i:j])
            if v is None:
                return None, "value-form"
            toks.append(v)
            i = j
    return toks, None


_LITERAL = set("abcdefghijklmnopqrstuvwxyzABCDEFGHIJKLMNOPQRSTUVWXYZ0123456789-|#(),. ")
# bytes that are not marble characters decode to whole fragments, so that random byte strings are mostly inside the
# documented language while a seed made of marble characters still decodes to itself
_FRAGMENTS = ["-", "--", "---", "-", "--", "|", "#", "a", "b", "ab", "cd", "12", "7", "1.5", "x1", "(a,b)", "(ab,12)", "(1,|)", "(a,#)",
              "(|)", "(x)", "(a,b,c)", " ", "()", "()-", "-", "--", "(1.5,a)", "0", "-a-", "-b", "-1-", "(12,3,4)", "-----", "2e3", "(b,|)", "  "]
_CH = [chr(b) if chr(b) in _LITERAL else _FRAGMENTS[b % len(_FRAGMENTS)] for b in range(256)]
_RAW_TS = [None, ["n", 1], ["n", 2], ["n", 0.5], ["n", 0.25], ["td", 500000], ["x", "0.1"], ["n", 10]]
_RAW_SH = [None, ["n", 0], ["n", 1], ["n", 200], ["n", 0.5], ["td", 250000], ["n", 10.0], ["n", 3]]


@st.composite
def _raw_case(draw):
    # draw order = byte layout under hypothesis' BytestringProvider (one byte each): see fuzz_seeds()
    ts = draw(st.integers(0, len(_RAW_TS) - 1))
    sh = draw(st.integers(0, len(_RAW_SH) - 1))
    rs = draw(st.booleans())
    n = draw(st.integers(0, 63))
    s = "".join(_CH[draw(st.integers(0, 255))] for _ in range(n))
    return {"s": s, "ts": _RAW_TS[ts], "shift": _RAW_SH[sh], "rs": rs}


def _run_raw(case):
    s = case["s"]
    toks, why = scan(s)
    if toks is None:
        return OK(False, [f"outside-documented-language:{why}"])
    return _run_parse_on(s, toks, case, ["in-language"] + _shape_classes(toks, [1] if " " in s else []))


def _lift_marble_strings():
    """Marble diagrams appearing as string literals in the repository's marble tests."""
    from vlib.runner import REPO

    out = []
    lit = re.compile(r"[\"']([-|#(),. A-Za-z0-9]{1,63})[\"']")
    for rel in ("tests/test_observable/test_marbles.py", "tests/test_testing/test_marbles.py"):
        p = os.path.join(REPO, rel)
        if not os.path.exists(p):
            continue
        with open(p) as fh:
            for line in fh:
                if not re.search(r"string\s*=|cold\(|hot\(|exp\(|parse\(|from_marbles\(", line):
                    continue
                for m in lit.finditer(line):
                    t = m.group(1)
                    if any(c in t for c in "-|#(") and t not in out:
                        out.append(t)
    return out


def fuzz_seeds(target):
    """[(bytes, predicate(case))]: buffers that make hypothesis' fuzz_one_input generate the lifted strings."""
    if target != "raw":
        return []
    seeds = []
    for i, s in enumerate(_lift_marble_strings()):
        ts, sh, rs = i % len(_RAW_TS), (i // 3) % len(_RAW_SH), 255 if i % 2 else 0
        buf = bytes([ts, sh, rs, len(s)]) + s.encode("ascii")
        seeds.append((buf, (lambda case, s=s: case.get("s") == s)))
    return seeds


# ---------------------------------------------------------------------------------------
# strategies

_letters = "abcdexyzABZ"
_word = st.text(alphabet=_letters, min_size=2, max_size=4).filter(lambda w: w.lower() not in _NOT_WORDS)
_value = st.one_of(
    st.sampled_from(list(_letters)).map(lambda c: ["v", c, "s"]),
    st.sampled_from(list(_letters)).map(lambda c: ["v", c, "s"]),
    _word.map(lambda w: ["v", w, "s"]),
    st.builds(lambda c, n: ["v", f"{c}{n}", "s"], st.sampled_from(list(_letters)), st.integers(0, 99)),
    st.builds(lambda z, n: ["v", "0" * z + str(n), "i"], st.sampled_from([0, 0, 0, 1, 2]), st.one_of(st.integers(0, 9), st.integers(0, 99999))),
    st.builds(lambda i, f: ["v", f"{i}.{f}", "f"], st.integers(0, 999), st.sampled_from(["0", "5", "25", "125", "75", "1", "345", "50"])),
    st.builds(lambda i, f, e: ["v", f"{i}.{f}e{e}", "f"], st.integers(0, 9), st.sampled_from(["0", "5", "7"]), st.integers(0, 12)),
    st.builds(lambda i, e: ["v", f"{i}e{e}", "f"], st.integers(1, 99), st.integers(0, 5)),
)
_terminal = st.sampled_from([["|"], ["|"], ["#"]])
_group = st.one_of(
    st.lists(st.one_of(_value, _value, _value, _terminal), min_size=1, max_size=4),
    st.lists(st.one_of(_value, _value, _value, _terminal), min_size=1, max_size=4),
    st.lists(st.one_of(_value, _value, _value, _terminal), min_size=1, max_size=4),
    st.just([]),  # '()': an opened and closed group without elements - two characters of time, no marble
).map(lambda els: ["g", els])
_dash = st.integers(1, 6).map(lambda n: ["-", n])
_token = st.one_of(_dash, _dash, _dash, _value, _value, _group, _terminal)


def _normalize(toks):
    """Two plain values may not be adjacent (they would be one longer value); merge '-' runs."""
    out = []
    for t in toks:
        if out and t[0] == "v" and out[-1][0] == "v":
            out.append(["-", 1])
        if out and t[0] == "-" and out[-1][0] == "-":
            out[-1] = ["-", out[-1][1] + t[1]]
            continue
        out.append(t)
    return out


@st.composite
def _tokens(draw, conforming=None):
    toks = _normalize(draw(st.lists(_token, min_size=0, max_size=10)))
    mode = draw(st.sampled_from(["as-is", "as-is", "cut-at-terminal", "cut-at-terminal", "end-with-terminal"])) if conforming is None else conforming
    if mode != "as-is":
        # keep everything up to the first terminal, then only '-' runs: a conforming diagram
        out, seen = [], False
        for t in toks:
            if seen:
                if t[0] == "-":
                    out.append(t)
                continue
            if t[0] == "g":
                els = []
                for e in t[1]:
                    els.append(e)
                    if e[0] in "|#":
                        seen = True
                        break
                out.append(["g", els])
            else:
                out.append(t)
                if t[0] in "|#":
                    seen = True
        if mode == "end-with-terminal" and not seen:
            out.append(draw(_terminal))
        toks = _normalize(out)
    return toks


_spaces = st.one_of(st.just([]), st.just([]), st.lists(st.tuples(st.integers(0, 80), st.integers(1, 3)).map(list), min_size=1, max_size=4))
_ts = st.one_of(
    st.none(),
    st.sampled_from([1, 2, 3, 10, 0.5, 0.25, 0.125, 1.5, 1.0]).map(lambda v: ["n", v]),
    st.sampled_from([1000000, 500000, 250000, 2000000, 100000]).map(lambda v: ["td", v]),
    st.sampled_from(["0.1", "0.3"]).map(lambda v: ["x", v]),
)
_shift = st.one_of(
    st.none(),
    st.sampled_from([0, 1, 5, 200, 0.5, 10.0, 0.25, 1000]).map(lambda v: ["n", v]),
    st.sampled_from([1000000, 250000, 0]).map(lambda v: ["td", v]),
)
_vnames = st.sampled_from(NAMES)


def _all_values(toks):
    for t in toks:
        if t[0] == "v":
            yield t
        elif t[0] == "g":
            for e in t[1]:
                if e[0] == "v":
                    yield e


def _key_of(t):
    v = _value_of(t)
    if isinstance(v, str):
        return ["s", v]
    if isinstance(v, int):
        return ["i", v]
    return ["f", repr(v)]


@st.composite
def _lookup(draw, toks):
    if draw(st.integers(0, 2)) == 0:
        return None
    vals = list(_all_values(toks))
    keys = []
    if vals:
        for i in draw(st.lists(st.integers(0, len(vals) - 1), max_size=4)):
            k = _key_of(vals[i])
            if k[0] == "i" and draw(st.integers(0, 5)) == 0:
                k = ["f", repr(float(k[1]))]  # an equal float key also matches an int marble (dict semantics)
            keys.append(k)
    keys += draw(st.lists(st.sampled_from([["s", "q"], ["i", 424242], ["f", "0.5"], ["s", "1"], ["s", "ab"]]), max_size=2))
    return [[k, draw(_vnames)] for k in keys]


@st.composite
def _parse_case(draw):
    toks = draw(_tokens())
    return {
        "toks": toks,
        "sp": draw(_spaces),
        "ts": draw(_ts),
        "shift": draw(_shift),
        "lookup": draw(_lookup(toks)),
        "error": draw(st.sampled_from([None, "boom"])),
        "rs": draw(st.sampled_from([None, False, True, True])),
    }


@st.composite
def _deliver_case(draw):
    api = draw(st.sampled_from(["from_marbles", "from_marbles", "cold", "hot", "hot", "ctx_cold", "ctx_hot"]))
    toks = draw(_tokens(conforming=draw(st.sampled_from(["as-is", "cut-at-terminal", "cut-at-terminal", "cut-at-terminal", "end-with-terminal"]))))
    c = {"api": api, "toks": toks, "sp": draw(_spaces), "lookup": draw(_lookup(toks)), "error": draw(st.sampled_from([None, "boom"]))}
    if api in ("ctx_cold", "ctx_hot"):
        c["ts"] = draw(st.sampled_from([None, ["n", 1], ["n", 2], ["n", 3], ["n", 1.0], ["td", 2000000], ["n", 0.5], ["n", 0.25], ["n", 1.5], ["td", 500000]]))
        return c
    c["ts"] = draw(
        st.one_of(
            st.none(),
            st.sampled_from([1, 2, 3, 0.5, 0.25, 1.5]).map(lambda v: ["n", v]),
            st.sampled_from([1000000, 500000]).map(lambda v: ["td", v]),
            st.just(["x", "0.1"]),
            # hours or a day per frame: the timeline leaves the first day of the virtual clock
            st.sampled_from([["n", 3600], ["n", 30000], ["n", 86400], ["n", 43200.5], ["td", 21600 * 10**6]]),
        )
    )
    c["t0"] = draw(st.sampled_from([0, 1, 5, 200, 200, 100000]))
    c["clock"] = draw(st.sampled_from(["test", "test", "hist"]))
    c["gap"] = draw(st.sampled_from([None, 1, 3, 4, 7]))
    if api == "hot":
        c["due"] = draw(st.one_of(st.none(), st.sampled_from([0, 1, 2, 0.5, 10, 90000]).map(lambda v: ["n", v]), st.sampled_from([1000000, 500000, 172800 * 10**6]).map(lambda v: ["td", v])))
        if draw(st.integers(0, 3)) == 0:
            c["due"] = ["abs", c["t0"] + draw(st.sampled_from([0, 1, 2.5, 10]))]
    else:
        c["mode"] = draw(st.sampled_from(["fac", "sub"]))
    return c


# ---------------------------------------------------------------------------------------
# atheris campaigns (thorough only)


def _atheris_cases(tier):
    if tier != "thorough":
        return []
    from vlib import fuzz

    seed = fuzz.env_seed()
    return [
        {"target": "raw", "corpus": "seeded", "runs": fuzz.scaled(200000), "seed": seed},
        {"target": "raw", "corpus": "empty", "runs": fuzz.scaled(200000), "seed": seed},
        {"target": "parse", "corpus": "empty", "runs": fuzz.scaled(120000), "seed": seed},
    ]


def _run_atheris(case):
    from vlib import fuzz

    return fuzz.run_campaign(PROPERTY_ID, case)


def checks(tier):
    return [
        Check("parse", _run_parse, strategy=_parse_case(), examples={"quick": 5000, "thorough": 16 * 40000}, shards={"quick": 4, "thorough": 16}),
        Check("deliver", _run_deliver, strategy=_deliver_case(), examples={"quick": 3000, "thorough": 16 * 20000}, shards={"quick": 4, "thorough": 16}),
        Check("raw", _run_raw, strategy=_raw_case(), examples={"quick": 3000, "thorough": 16 * 20000}, shards={"quick": 4, "thorough": 16}),
        Check("atheris", _run_atheris, cases=_atheris_cases, shards={"quick": 1, "thorough": 16}),
    ]
