"""C34 Real-time schedulers never run an action early or after cancellation (Engine DET: fake clock, controlled timer threads)."""
from __future__ import annotations

from datetime import timedelta, timezone

from hypothesis import strategies as st

from vlib import det, schedrun
from vlib.core import FAIL, OK, Check, HarnessError

PROPERTY_ID = "C34"
LEVEL = "exploration"
RULE = (
    "A program is run against ONE scheduler object (sk: 'timeout' = TimeoutScheduler, 'newthread' = NewThreadScheduler, "
    "'pool1'/'pool2' = ThreadPoolScheduler(1|2) on Engine DET's cooperative executor, 'eventloop' = EventLoopScheduler; "
    "'immediate' = ImmediateScheduler) by a main thread and optionally a second, cancelling thread. Operations: "
    "['s', kind, d, body] = schedule / schedule_relative(d ms as float | timedelta) / schedule_absolute(EPOCH + d ms as an aware datetime in UTC, +02:00 or "
    "-05:30; d ranges over zero, negative, a few ms AND day-sized / multi-day values (1 day + 1..5 ms, 25 h, exactly 1, 2 "
    "and 3 days) in every one of these argument forms, so the whole delay incl. its whole-day part must elapse on the fake clock) with an "
    "action that logs start, runs `body` (cancels, and nested schedule operations issued on the scheduler object the action "
    "was handed) and logs end; ['x', ref] = dispose the disposable returned for schedule operation number ref (if that call "
    "has returned); ['w', ms] = sleep ms of fake time (this is what lets the fake clock reach a due time while the program "
    "is still active, so 'dispose before due' (w < d), 'at due' (w == d: the disposing thread and the timer/loop/worker thread "
    "become runnable at the same instant and the schedule decides who goes first, at line granularity) and 'after start' "
    "are all produced). Time is Engine DET's fake clock; threading.Timer, Thread, Condition, Event and the executor inside "
    "reactivex are the cooperative replacements of vlib/det.py, every timer/loop/worker thread is a controlled logical thread. "
    "det-enum: every schedule with <=1 (quick) / <=2 (thorough) preemptions of 16 fixed small programs (4 of them with day-sized "
    "delays, sleeps of a day and dispose a day before / exactly at a day-sized due time) x 5 scheduler kinds; "
    "det-gen: generated programs (1-5 operations or schedule/sleep/dispose gadgets, optional cancelling thread) with <=3 drawn "
    "preemption points; "
    "imm-enum / imm: ImmediateScheduler on one thread (DET free mode), all operation lists up to 3 over a small alphabet + "
    "generated ones. "
    "Oracle over the event log (call/ret of each schedule call, start/end of each action, cancel issue/return; thread id and "
    "fake clock each): (1) start clock >= due, due = call clock + max(0, d) for relative, the given datetime for absolute, "
    "call clock for schedule(); (2) at most one start per action; (3) an action whose dispose() RETURNED while the clock was "
    "still < due never starts; (3b) (from the title 'never ... after cancellation', for cancellations that certainly "
    "precede the loop's cancel test) an action does not start on a thread after an earlier action finished on that thread "
    "if its dispose() had returned before that earlier action finished; (6) lateness where the fake clock makes it exact (timeout, newthread, eventloop; "
    "not the pools): an action starts exactly at max(due, call clock) unless the thread that runs it was inside earlier "
    "actions (sleeping in their bodies) from that instant until the start; (4) at quiescence of a complete run every action whose schedule call returned and whose "
    "disposable was never disposed has run exactly once; (5) no deadlock, no escaped exception. ImmediateScheduler: a call "
    "with due <= now runs the action inline (start and end between call and return, same thread), a call with a positive "
    "delay raises WouldBlockException and the action never starts. "
    "Non-trivial (det): a cancellation racing a timer wake-up = dispose() of a delayed action issued at clock == due while "
    "the action has not started (its timer/loop thread is between waking and invoking); imm: at least one positive delay "
    "and one inline run. Distinct = distinct case JSON."
)
ASSUMPTIONS = [
    "a dispose() issued at or after the due instant is 'best effort' (docstrings) and only constrained by at-most-once",
    "late starts are allowed on the pools (a worker may be occupied by another loop) and when the designated thread is "
    "busy with earlier actions; elsewhere the docstrings' 'executed at duetime' is exact under the fake clock",
    "C-level atomicity of CPython (GIL build); a source line of reactivex code is the unit of interleaving; the cooperative "
    "Timer/executor of vlib/det.py mirror the stdlib ones (Timer.run = wait(interval) then test the cancel flag then call)",
    "bounds: <=2 program threads, <=10 schedule operations, nesting depth 1, <=2 preemptions exhaustive / <=3 drawn",
    "EventLoopScheduler.dispose() and periodic scheduling are covered by C31/C35, not here",
    "delay magnitudes: <= 3 days + a few ms (fake clock, integer microseconds; float seconds of that size are exact to well "
    "below 1 us); larger magnitudes (weeks, years, timedelta.max) and periodic scheduling with day-sized periods are not generated",
]

TIMEOUT = {"quick": 400, "thorough": 3600}  # runner: wall-clock cap per shard
# absolute due times are given as aware datetimes: 'abs' in UTC, 'abse' / 'absw' the same instant expressed in +02:00 / -05:30
ABS_TZ = {"abs": timezone.utc, "abse": timezone(timedelta(hours=2)), "absw": timezone(timedelta(hours=-5, minutes=-30))}
SKS = ("timeout", "newthread", "pool1", "pool2", "eventloop")
DAY = 86_400_000  # ms; delays of >= 1 day exercise the .days component of the timedelta / the magnitude of the float
number, now_us = schedrun.number, schedrun.now_us


def make_scheduler(sk):
    from reactivex import scheduler as S

    if sk == "timeout":
        return S.TimeoutScheduler()
    if sk == "newthread":
        return S.NewThreadScheduler()
    if sk == "pool1":
        return S.ThreadPoolScheduler(1)
    if sk == "pool2":
        return S.ThreadPoolScheduler(2)
    if sk == "eventloop":
        return S.EventLoopScheduler()
    if sk == "immediate":
        return S.ImmediateScheduler()
    raise HarnessError(f"bad scheduler kind {sk}")


class World:
    def __init__(self, case):
        self.case = case
        self.ids, self.meta = number(case["threads"])
        self.rec = []  # (kind, sid, tid, clock_us)
        self.disp = {}
        self.sched = make_scheduler(case["sk"])
        schedrun.audit(self.sched)

    def _ev(self, kind, sid):
        tid = det.current_tid()
        self.rec.append((kind, sid, 0 if tid is None else tid, now_us()))

    def run_ops(self, ops, ids, sch):
        from reactivex.internal.exceptions import WouldBlockException

        for op, idn in zip(ops, ids):
            k = op[0]
            if k == "s":
                sid, kid_ids = idn
                _, kind, d, body = op

                def action(sc, state, sid=sid, body=body, kid_ids=kid_ids):
                    self._ev("start", sid)
                    self.run_ops(body, kid_ids, sc)
                    self._ev("end", sid)

                self._ev("call", sid)
                try:
                    if kind == "now":
                        dsp = sch.schedule(action)
                    elif kind == "rel":
                        dsp = sch.schedule_relative(d / 1000.0, action)
                    elif kind == "reltd":
                        dsp = sch.schedule_relative(timedelta(milliseconds=d), action)
                    elif kind in ABS_TZ:
                        dsp = sch.schedule_absolute((det.EPOCH + timedelta(milliseconds=d)).astimezone(ABS_TZ[kind]), action)
                    else:
                        raise HarnessError(f"bad kind {kind}")
                except WouldBlockException:
                    self._ev("wouldblock", sid)
                    continue
                self.disp[sid] = dsp
                self._ev("ret", sid)
            elif k == "x":
                if not self.meta:
                    continue
                target = op[1] % len(self.meta)
                dsp = self.disp.get(target)
                if dsp is None:
                    continue
                self._ev("cx", target)
                dsp.dispose()
                self._ev("cr", target)
            elif k == "w":
                det.CEvent().wait(op[1] / 1000.0)
            else:
                raise HarnessError(f"bad op {op}")


def build(case):
    w = World(case)
    threads = [(lambda ops=ops, ids=ids: w.run_ops(ops, ids, w.sched)) for ops, ids in zip(case["threads"], w.ids)]
    return threads, w


def analyse(world, complete=True):
    """(violation | None, facts) for the threaded schedulers."""
    rec, meta = world.rec, world.meta
    n = len(meta)
    call = [None] * n
    ret = [None] * n
    start = [None] * n
    end = [None] * n
    due = [None] * n
    call_clk = [None] * n
    timed = [False] * n
    facts = set()
    pending = {}
    ends = []
    cancels = []  # (issue idx, issue clock, return idx, return clock, target)
    for i, (kind, sid, tid, clk) in enumerate(rec):
        if kind == "call":
            k, d = meta[sid]
            call[sid] = i
            call_clk[sid] = clk
            due[sid] = d * 1000 if k in ABS_TZ else clk + max(0, d) * 1000 if k in ("rel", "reltd") else clk
            timed[sid] = due[sid] > clk
            if timed[sid]:
                facts.add("timed:" + ("abs" if k in ABS_TZ else "rel"))
                if due[sid] - clk >= DAY * 1000:
                    facts.add("day-delay:" + ("abs" if k == "abs" else "abs-non-utc" if k in ABS_TZ else "float" if k == "rel" else "timedelta"))
                    if due[sid] - clk >= 2 * DAY * 1000:
                        facts.add("multi-day-delay")
            elif k in ABS_TZ:
                facts.add("abs-not-future")
            if k in ("abse", "absw"):
                facts.add("abs-non-utc-zone")
        elif kind == "ret":
            ret[sid] = i
        elif kind == "wouldblock":
            return ("escaped:WouldBlockException", f"schedule call #{sid} {meta[sid]} raised WouldBlockException on a {world.case['sk']} scheduler"), facts
        elif kind == "start":
            if start[sid] is not None:
                return ("ran-twice", f"action #{sid} {meta[sid]} started twice"), facts
            start[sid] = i
            if clk < due[sid]:
                return ("early", f"action #{sid} {meta[sid]} due at {due[sid]}us started at {clk}us"), facts
            if clk > due[sid]:
                facts.add("late")
            if timed[sid]:
                facts.add("timed-ran")
                if due[sid] - call_clk[sid] >= DAY * 1000:
                    facts.add("day-delay-ran")
        elif kind == "end":
            end[sid] = i
            ends.append(i)
        elif kind == "cx":
            pending[(sid, tid)] = (i, clk)
        elif kind == "cr":
            ci, cclk = pending.pop((sid, tid))
            cancels.append((ci, cclk, i, clk, sid))
    for ci, cclk, ri, rclk, x in cancels:
        if rclk < due[x]:
            if start[x] is not None:
                return ("cancelled-ran", f"action #{x} {meta[x]} (due {due[x]}us) started at event {start[x]} although its dispose() returned at {rclk}us, before the due time"), facts
            facts.add("cancel-before-due")
        elif start[x] is not None and start[x] < ci:
            facts.add("cancel-after-start")
        elif start[x] is not None and any(ri < e < start[x] and rec[e][2] == rec[start[x]][2] for e in ends):
            # (3b) dispose() returned, THEN an earlier action finished on the thread that runs x, THEN x started there:
            # the loop's cancel test for x lies after that earlier action, so it must have seen the cancellation
            return ("cancelled-ran", f"action #{x} {meta[x]} started at event {start[x]} on thread {rec[start[x]][2]} although its dispose() had returned (event {ri}) before an earlier action finished on that thread"), facts
        elif timed[x] and cclk == due[x]:
            # issued at the due instant while the action has not started: its timer / loop thread has been made runnable
            # by the clock reaching `due` and is somewhere between waking up and invoking
            facts.add("race-at-due")
            facts.add("race-ran" if start[x] is not None else "race-suppressed")
            if start[x] is not None and start[x] > ri:
                facts.add("race-ran-after-dispose-returned")  # the whole dispose() fell between the cancel test and the invocation
        else:
            facts.add("cancel-immediate-or-late")
    # (6) lateness, where the fake clock makes it exact: time only advances while EVERY thread is parked, so on a
    # scheduler that gives the action its own timer / loop thread (timeout, newthread) or one designated thread
    # (eventloop) an action starts exactly at max(due, call clock) unless that thread was inside earlier actions
    # (sleeping in their bodies) from that instant until the start.  Pools are excluded: a worker may legitimately be
    # occupied by another loop that is waiting for its own item.
    if world.case["sk"] in ("timeout", "newthread", "eventloop"):
        by_thread = {}
        for z in range(n):
            if start[z] is not None:
                by_thread.setdefault(rec[start[z]][2], []).append((start[z], rec[start[z]][3], None if end[z] is None else rec[end[z]][3], z))
        for x in range(n):
            if start[x] is None:
                continue
            want = max(due[x], call_clk[x])
            got = rec[start[x]][3]
            if got == want:
                if timed[x]:
                    facts.add("on-time-exactly")
                continue
            t = want
            for si, sclk, eclk, z in sorted(by_thread[rec[start[x]][2]]):
                if si < start[x] and eclk is not None and sclk <= t < eclk:
                    t = eclk
            if t < got:
                return ("late", f"action #{x} {meta[x]} due at {want}us started at {got}us although its thread {rec[start[x]][2]} was not inside an earlier action from {t}us on"), facts
            facts.add("late-explained")
    if complete:
        cancelled = {c[4] for c in cancels}
        for y in range(n):
            if call[y] is not None and ret[y] is not None and y not in cancelled and end[y] is None:
                return ("lost", f"action #{y} {meta[y]} (schedule call returned at event {ret[y]}, never disposed) has not run at quiescence"), facts
    return None, facts


def _fmt(rec):
    return " ".join(f"{k}{s}@T{t}/{c}" for k, s, t, c in rec)


def _judge(case, w, res):
    if res.deadlock:
        return "deadlock", repr(res.deadlock) + " log=" + _fmt(w.rec)
    if res.exceptions:
        tid, e = sorted(res.exceptions.items())[0]
        return f"escaped:{type(e).__name__}", f"thread {tid} ({res.names.get(tid)}): {e!r} log={_fmt(w.rec)}"
    bad, _ = analyse(w, res.complete)
    if bad:
        return bad[0], bad[1] + "; log=" + _fmt(w.rec)
    return None


def _facts(case, w, res):
    return analyse(w, res.complete)[1]


_KW = dict(max_steps=8000, reuse_threads=True)  # none of these schedulers keys state on thread identity


def run_det(case):
    return schedrun.drive(case, build, _judge, _facts, {"race-at-due"}, _KW, sig_suffix="|" + case["sk"])


def run_imm(case):
    """ImmediateScheduler, one thread, free mode."""
    w = None
    try:
        with schedrun.quiet_rx_log(), schedrun.patched(), schedrun.watchdog():
            w = World({"sk": "immediate", "threads": case["threads"]})
            w.run_ops(case["threads"][0], w.ids[0], w.sched)
    except schedrun.Wedged as e:
        return FAIL("no-return|immediate", f"{e}; log so far={_fmt(w.rec) if w else ''}; case={case}")
    rec, meta = w.rec, w.meta
    cl = set()
    open_calls = []
    started = set()
    for i, (kind, sid, tid, clk) in enumerate(rec):
        if kind == "call":
            k, d = meta[sid]
            due = d * 1000 if k in ABS_TZ else clk + max(0, d) * 1000 if k in ("rel", "reltd") else clk
            open_calls.append((sid, due > clk, clk))
        elif kind == "start":
            if sid in started:
                return FAIL("ran-twice|immediate", f"action #{sid}; log={_fmt(rec)}; case={case}")
            started.add(sid)
            if not open_calls or open_calls[-1][0] != sid:
                return FAIL("not-inline|immediate", f"action #{sid} {meta[sid]} started outside its own schedule call; log={_fmt(rec)}; case={case}")
            if open_calls[-1][1]:
                return FAIL("ran-with-positive-delay|immediate", f"action #{sid} {meta[sid]} was run although its due time is in the future (WouldBlockException expected); log={_fmt(rec)}; case={case}")
            if clk != open_calls[-1][2]:
                return FAIL("blocked|immediate", f"the fake clock moved between call and start of #{sid}; log={_fmt(rec)}; case={case}")
            cl.add("inline")
        elif kind in ("ret", "wouldblock"):
            s2, future, _ = open_calls.pop()
            if s2 != sid:
                raise HarnessError("call/ret mismatch")
            if kind == "wouldblock":
                if not future:
                    return FAIL("wouldblock-without-delay|immediate", f"call #{sid} {meta[sid]} raised WouldBlockException although it was due; log={_fmt(rec)}; case={case}")
                if sid in started:
                    return FAIL("ran-and-raised|immediate", f"#{sid}; log={_fmt(rec)}; case={case}")
                cl.add("wouldblock")
            else:
                if future:
                    return FAIL("no-wouldblock|immediate", f"call #{sid} {meta[sid]} with a positive delay returned normally; log={_fmt(rec)}; case={case}")
                if not any(e[0] == "end" and e[1] == sid for e in rec[:i]):
                    return FAIL("not-inline|immediate", f"schedule call #{sid} {meta[sid]} returned before its action finished; log={_fmt(rec)}; case={case}")
    return OK({"inline", "wouldblock"} <= cl, sorted(cl))


# ---------------------------------------------------------------------------------------------
# cases
# ---------------------------------------------------------------------------------------------
def _S(kind="now", d=0, body=()):
    return ["s", kind, d, list(body)]


def _det_programs():
    yield [[_S("rel", 2), ["w", 2], ["x", 0]]]  # dispose at due: the race with the wake-up
    yield [[_S("reltd", 3), ["w", 1], ["x", 0]]]  # dispose before due
    yield [[["w", 1], _S("absw", 3), ["w", 2], ["x", 0]]]  # absolute (aware datetime in a non-UTC zone), dispose at due
    yield [[_S("rel", 2), _S("now"), ["w", 2], ["x", 0]]]
    yield [[_S("rel", 2), _S("reltd", 2)], [["w", 2], ["x", 1], ["x", 0]]]  # cancelling thread, both at due
    yield [[_S("now", 0, [_S("rel", 2)]), ["w", 1], ["x", 1]]]  # nested schedule on the handed scheduler, cancelled before due
    yield [[_S("rel", 3), ["w", 1], _S("now"), _S("abse", 2)]]  # new work arrives while the loop sleeps
    yield [[_S("rel", 1, [["x", 1]]), _S("rel", 2)], [["w", 1], ["x", 0]]]  # an action cancels a later one; dispose after start
    # two items due together (one batch of an event loop): the first action sleeps, then cancels the second / a second
    # thread cancels it meanwhile / the same with nested items on the scheduler handed to the action (NewThread, pool)
    yield [[_S("rel", 1, [["w", 1], ["x", 1]]), _S("rel", 1)]]
    yield [[_S("rel", 1, [["w", 2]]), _S("rel", 1)], [["w", 2], ["x", 1]]]
    yield [[_S("now", 0, [_S("rel", 1, [["w", 1], ["x", 2]]), _S("rel", 1)])]]
    yield [[_S("rel", 1, [["w", 2]]), _S("rel", 2), _S("abse", 4)]]  # an action sleeps past the next due time: explained lateness
    # day-sized and multi-day delays in every argument form (float seconds, timedelta, aware datetime UTC / non-UTC): the
    # whole delay, including whole days, must elapse on the fake clock (virtual waiting costs nothing)
    yield [[_S("reltd", DAY + 2), _S("rel", DAY + 3), ["w", 5], _S("rel", 2 * DAY)]]
    yield [[["w", 1], _S("abs", DAY + 2), _S("absw", 3 * DAY + 1), _S("abse", 2 * DAY + 1)]]
    yield [[_S("reltd", 2 * DAY), _S("rel", 90_000_000), ["w", DAY], ["x", 0]]]  # 2 days; 25 h as float; dispose the first a day before due
    yield [[_S("rel", DAY + 1, [_S("reltd", DAY)]), ["w", DAY + 1], ["x", 0]]]  # dispose at due after a day; nested day delay


def _det_enum(tier):
    K = 1 if tier == "quick" else 2
    for threads in _det_programs():
        for sk in SKS:
            yield {"sk": sk, "threads": threads, "sched": {"mode": "all", "K": K}}


_KD = [["now", 0], ["now", 0], ["rel", 0], ["rel", -1], ["rel", 1], ["rel", 2], ["reltd", 2], ["reltd", 3], ["rel", 5],
       ["abs", 0], ["abs", 2], ["abse", 3], ["absw", 4], ["abs", 6], ["absw", 1], ["abse", 2],
       ["rel", DAY + 2], ["reltd", DAY + 1], ["rel", 2 * DAY], ["reltd", 3 * DAY], ["rel", 90_000_000], ["reltd", DAY],
       ["abs", DAY + 3], ["abse", 2 * DAY], ["absw", 2 * DAY + 5]]  # fmt: skip
_x = st.tuples(st.just("x"), st.integers(0, 7)).map(list)
_w = st.tuples(st.just("w"), st.sampled_from([1, 1, 2, 2, 3, 5, 1, 2, 3, DAY, DAY + 1])).map(list)
_leaf = st.builds(lambda k: ["s", k[0], k[1], []], st.sampled_from(_KD))
_s = st.builds(lambda k, b: ["s", k[0], k[1], b], st.sampled_from(_KD), st.lists(st.one_of(_leaf, _x, _w), max_size=2))
# gadget: schedule a delayed action, sleep (exactly / one ms short of / one ms past) its delay, dispose THAT action
# ("x", "@" is resolved to the action's number when the program is assembled): this is what makes the cancellation meet
# the wake-up of the timer / loop thread at the same fake instant often enough
_gadget = st.builds(
    lambda k, b, off: [["s", k[0], k[1], b], ["w", max(1, k[1] + off)], ["x", "@"]],
    st.sampled_from([["rel", 1], ["rel", 2], ["reltd", 2], ["reltd", 3], ["rel", 5], ["rel", DAY + 1], ["reltd", 2 * DAY]]),
    st.lists(st.one_of(_leaf, _x), max_size=1),
    st.sampled_from([0, 0, 0, -1, 1]),
)
_has_s = lambda o: any(x[0] == "s" for x in o)  # noqa: E731


def _count_s(ops):
    return sum(1 + _count_s(o[-1]) for o in ops if o[0] == "s")


def _assemble(parts):
    """Flatten [op | gadget] and resolve the gadgets' '@' to the number of the schedule operation before the sleep."""
    out = []
    for p in parts:
        if p and isinstance(p[0], list):
            sid = _count_s(out)
            out += [p[0], p[1], ["x", sid]]
        else:
            out.append(p)
    return out


_main = st.lists(st.one_of(_s, _s, _w, _x, _gadget, _gadget), min_size=1, max_size=5).map(_assemble).filter(_has_s)
_canceller = st.lists(st.one_of(_w, _x, _x), min_size=1, max_size=4)
_det_gen = st.builds(
    lambda sk, m, c, s: {"sk": sk, "threads": [m] + ([c] if c else []), "sched": s},
    st.sampled_from(SKS),
    _main,
    st.one_of(st.just(None), st.just(None), _canceller),
    schedrun.sched_strategy(3, max_tid=6),
)

_IMM_ALPHA = [_S("now"), _S("rel", 0), _S("rel", 2), _S("reltd", -1), _S("abse", 0), _S("absw", 2), ["w", 2], _S("now", 0, [_S("rel", 1), _S("now")]),
              _S("reltd", 2 * DAY)]


def _imm_enum(tier):
    import itertools

    for n in range(1, (3 if tier == "quick" else 4) + 1):
        for seq in itertools.product(_IMM_ALPHA, repeat=n):
            yield {"threads": [[list(o) for o in seq]]}


_imm = st.builds(lambda m: {"threads": [m]}, st.lists(st.one_of(_s, _w), min_size=1, max_size=6).filter(_has_s))


def checks(tier):
    return [
        Check("imm-enum", run_imm, cases=_imm_enum, shards={"quick": 2, "thorough": 4}, exhaustive=True),
        Check("imm", run_imm, strategy=_imm, examples={"quick": 800, "thorough": 16 * 5000}, shards={"quick": 8, "thorough": 16}),
        Check("det-enum", run_det, cases=_det_enum, shards={"quick": 8, "thorough": 16}, exhaustive=True),
        Check("det-gen", run_det, strategy=_det_gen, examples={"quick": 4000, "thorough": 16 * 10000}, shards={"quick": 8, "thorough": 16}),
    ]
