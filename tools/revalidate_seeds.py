#!/usr/bin/env python3
"""Re-run every seeded change's demo against /repo HEAD (+patch / without patch) in a scratch copy; flag seeds whose demo no longer
fails with the patch (neutralised by later fix commits) or whose patch no longer applies. Writes meta.json 'head_status'."""
import json, glob, os, shutil, subprocess, sys, tempfile
os.chdir(os.path.dirname(os.path.dirname(os.path.abspath(__file__))))
only = sys.argv[1] if len(sys.argv) > 1 else None
head = subprocess.check_output("git -C /repo rev-parse --short HEAD", shell=True, text=True).strip()
base = tempfile.mkdtemp(prefix="rxreval.", dir="/var/tmp")
try:
    subprocess.check_call(f"git -C /repo archive HEAD | tar -x -C {base}", shell=True)
    for d in sorted(glob.glob("seeded/*/")):
        name = os.path.basename(d[:-1])
        if only and only not in name: continue
        w = tempfile.mkdtemp(prefix="w.", dir=base)
        subprocess.check_call(f"cp -r {base}/reactivex {w}/ && mkdir {w}/_seed && cp {d}/demo.py {w}/_seed/", shell=True)
        r0 = subprocess.run("PYTHONDONTWRITEBYTECODE=1 timeout 300 /venv/bin/python _seed/demo.py", shell=True, cwd=w, capture_output=True).returncode
        ap = subprocess.run(f"patch -p1 -s < {os.path.abspath(d)}/patch.diff", shell=True, cwd=w, capture_output=True).returncode
        r1 = subprocess.run("PYTHONDONTWRITEBYTECODE=1 timeout 300 /venv/bin/python _seed/demo.py", shell=True, cwd=w, capture_output=True).returncode if ap == 0 else None
        st = "ok" if (ap == 0 and r0 == 0 and r1 not in (0, None)) else ("patch-does-not-apply" if ap != 0 else ("demo-fails-without-patch" if r0 != 0 else "neutralised: demo passes with the patch on HEAD"))
        mp = d + "meta.json"; m = json.load(open(mp)); m["head_status"] = {"head": head, "status": st}; json.dump(m, open(mp, "w"), indent=1)
        if st != "ok": print(name, st, flush=True)
        shutil.rmtree(w, ignore_errors=True)
finally:
    shutil.rmtree(base, ignore_errors=True)
print("done")
