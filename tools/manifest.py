#!/usr/bin/env python3
"""Regenerate MANIFEST.json from the table below + which props/Cxx.py modules exist.
Usage: python3 tools_manifest.py   (validates against /root/.vp/MANIFEST.schema.json if jsonschema is importable)
"""
import json, os, sys
HERE = os.path.dirname(os.path.dirname(os.path.abspath(__file__)))
props = [json.loads(l) for l in open(os.path.join(HERE, "properties.jsonl"))]

# per property: (engine, level category, technique, level text, level note, design_ref)
META = {}
for fn in sorted(os.listdir(os.path.join(HERE, "meta"))):
    if fn.endswith(".json"):
        META[fn[:-5]] = json.load(open(os.path.join(HERE, "meta", fn)))

if "--write" not in sys.argv:
    print("usage: tools/manifest.py --write   (regenerates MANIFEST.json from meta/*.json for the ids listed in meta/REGISTERED)")
    sys.exit(0)
REGISTERED = set(open(os.path.join(HERE, "meta", "REGISTERED")).read().split())
checks = []
na = []
for p in props:
    pid = p["id"]
    m = META.get(pid)
    if m is None or pid not in REGISTERED or not os.path.exists(os.path.join(HERE, "props", pid + ".py")) or m.get("na"):
        na.append({"property_id": pid, "reason": (m or {}).get("na") or "no check registered yet: the generated-search check for this property has not been built/validated (work in progress); see DESIGN.md section 6"})
        continue
    checks.append({
        "property_id": pid,
        "quick_cmd": f"./check {pid} --tier quick",
        "thorough_cmd": f"./check {pid} --tier thorough",
        "evidence_file": f"/verif/evidence/{pid}.json",
        "replay_cmd_template": f"./check {pid} --replay {{path}}",
        "engine": m["engine"],
        "level_claimed": {"category": m["level"], "text": m["text"], "design_ref": m.get("design_ref", f"DESIGN.md 6 ({pid})")},
        "level_note": m["note"],
        "technique": m["technique"],
    })
manifest = {
    "version": 1,
    "setup_cmd": "/venv/bin/python -c 'import hypothesis' 2>/dev/null || /venv/bin/pip install --no-index --find-links /opt/veriftools/wheels hypothesis",
    "hooks": {
        "guard": "REACTIVEX_RXPY_VERIF",
        "enable": "no source hooks: RxPY is pure Python and every check imports /repo's working tree in a fresh interpreter; instrumentation is done from the harness process (patched module namespaces, sys.settrace)",
        "baseline_off_cmd": "cd /repo && /venv/bin/python -m pytest -ra -q -p no:cacheprovider --timeout=900 --continue-on-collection-errors",
        "source_commits": [],
        "add_only": True,
    },
    "engines": [
        {"name": "VT", "path": "vlib/lab.py", "serves_properties": [c["property_id"] for c in checks if c["engine"] == "VT"], "kind_free_text": "virtual-time pipeline lab: logged cold/hot/sync sources, probes, armable callbacks, pipeline grammar (vlib/pipes.py); Hypothesis-generated cases + enumerations against closed-form / reference / differential / metamorphic oracles"},
        {"name": "HIST", "path": "vlib/hist.py", "serves_properties": [c["property_id"] for c in checks if c["engine"] == "HIST"], "kind_free_text": "generated call histories executed on the real object and an explicit Python model, compared after every step"},
        {"name": "DET", "path": "vlib/det.py", "serves_properties": [c["property_id"] for c in checks if c["engine"] == "DET"], "kind_free_text": "deterministic thread/clock harness: cooperative locks/threads/timers patched into reactivex modules, schedules are generated inputs (bounded preemptions)"},
        {"name": "FUZZ", "path": "vlib/fuzz.py", "serves_properties": [c["property_id"] for c in checks if c["engine"] == "FUZZ"], "kind_free_text": "atheris coverage-guided tier reusing the Hypothesis strategies and oracles"},
    ],
    "checks": checks,
    "not_applicable": na,
    "notes": "Single entry point ./check <ID> --tier quick|thorough [--replay F]; env VERIF_SEED, VERIF_REPO (default /repo). Exit 0 held / 1 VIOLATION / 2 harness error. known_findings.json lists open and fixed findings.",
}
json.dump(manifest, open(os.path.join(HERE, "MANIFEST.json"), "w"), indent=1)
try:
    import jsonschema
    jsonschema.validate(manifest, json.load(open("/root/.vp/MANIFEST.schema.json")))
    print("MANIFEST valid:", len(checks), "checks,", len(na), "not_applicable")
except ImportError:
    print("jsonschema not importable; wrote MANIFEST with", len(checks), "checks")
