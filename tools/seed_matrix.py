#!/usr/bin/env python3
"""Run checks against every seeded change and every mutants/*.diff; record which tier catches which.
usage: tools/seed_matrix.py [--tier quick|thorough] [--only substr] [--mutants]
Writes seeded/<name>/meta.json 'caught_by' and prints a table. Uses tools/with_mutant.sh (never touches /repo)."""
import json, os, subprocess, sys, glob, re
HERE = os.path.dirname(os.path.dirname(os.path.abspath(__file__)))
os.chdir(HERE)
tier = "quick"; only = None; mutants = False
a = sys.argv[1:]
if "--tier" in a: tier = a[a.index("--tier") + 1]
if "--only" in a: only = a[a.index("--only") + 1]
if "--mutants" in a: mutants = True
rows = []
items = []
for d in sorted(glob.glob("seeded/*/")):
    name = os.path.basename(d.rstrip("/"))
    meta = json.load(open(os.path.join(d, "meta.json")))
    items.append((name, os.path.join(d, "patch.diff"), meta.get("checks") or [meta["property"]], os.path.join(d, "meta.json")))
if mutants:
    for f in sorted(glob.glob("mutants/*.diff")):
        m = re.match(r"(C\d+)", os.path.basename(f))
        if m: items.append((os.path.basename(f), f, [m.group(1)], None))
jobs = int(a[a.index("--jobs") + 1]) if "--jobs" in a else 1
def one(item):
    name, patch, pids, metap = item
    res = {}
    for pid in pids:
        if not os.path.exists(f"props/{pid}.py"):
            res[pid] = "no-check"; continue
        p = subprocess.run(["tools/with_mutant.sh", patch, "--", "./check", pid, "--tier", tier], capture_output=True, text=True, timeout=7200)
        v = [l for l in p.stdout.splitlines() if l.startswith("VIOLATION")]
        res[pid] = ("CAUGHT" if p.returncode == 1 and v else f"missed(rc={p.returncode})")
    print(name, res, flush=True)
    if metap:
        meta = json.load(open(metap))
        cb = meta.get("caught_by") or {}
        cb[tier] = res
        meta["caught_by"] = cb
        json.dump(meta, open(metap, "w"), indent=1)
    return (name, res)
from concurrent.futures import ThreadPoolExecutor
with ThreadPoolExecutor(jobs) as ex:
    rows = list(ex.map(one, [i for i in items if not (only and only not in i[0])]))
