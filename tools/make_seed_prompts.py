#!/usr/bin/env python3
"""tools/make_seed_prompts.py <round-no> [ids...] : write /tmp/seed/Cxx.prop<round>.txt (property text + titles of earlier seeds)."""
import json, os, re, sys, glob
root = os.path.dirname(os.path.dirname(os.path.abspath(__file__)))
rnd = sys.argv[1]; only = set(sys.argv[2:])
NOTE = ("Note: earlier seeded changes for this property already exist; yours must be of a DIFFERENT kind (different function AND "
"different mechanism AND different triggering condition). Do NOT produce another 'per-subscription state moved to a wider scope / "
"second subscription' change, another 'truthiness instead of is-None' or 'None used as sentinel' change, another timezone / "
"absolute-vs-relative time change, another 'scheduler argument dropped / wrong scheduler' change, another change that only shows when "
"the consumer pushes a new element into the source RE-ENTRANTLY from inside its own callback, a change that only shows when two "
"threads call the SAME bare Subject's on_next/on_error/on_completed concurrently (overlapping notifications are outside the observer "
"contract), or a change that only alters which of two events scheduled for the exact same virtual instant wins when the property "
"text does not say. Read the statement clause by clause and list for yourself every operator, overload, argument form and path "
"(normal, error, dispose, empty input, boundary) it covers; pick the combination you judge LEAST likely to be exercised by a "
"thorough randomized test-harness that already covers everything listed below, and break exactly that. Good kinds: an off-by-one or "
"wrong comparison at a boundary value, a changed order of two steps that matters only when something happens in between, a dropped "
"guard on an error/dispose path, an optional-argument overload that diverges from the main one, a default argument handled "
"differently from an explicit equal one, an interaction of two features (e.g. error + pending work, dispose + completion at the "
"same instant), or two cooperating edits that each look harmless.")
os.makedirs("/tmp/seed", exist_ok=True)
for line in open(os.path.join(root, "properties.jsonl")):
    p = json.loads(line); pid = p["id"]
    if only and pid not in only: continue
    out = [f"{pid}: {p['title']}", "", "Statement: " + p["statement"], "", "Quantified over: " + p["quantifier"]["text"], "",
           "Why the existing tests cannot settle it: " + p["why_tests_cant"], "",
           "Relevant source files: " + ", ".join(p["anchors"]["files"]), "", NOTE, "Earlier seeds (what each needed in order to show):"]
    for d in sorted(glob.glob(os.path.join(root, "seeded", pid + "-*"))):
        try: m = json.load(open(os.path.join(d, "meta.json")))
        except Exception: continue
        f = ""
        try:
            f = re.search(r"^\+\+\+ b/(\S+)", open(os.path.join(d, "patch.diff")).read(), re.M).group(1)
        except Exception: pass
        need = m.get("needs_to_manifest", "")
        if not need or need.startswith("see notes"):
            try:
                t = open(os.path.join(d, "notes.md")).read()
                k = re.search(r"(?is)(needed to manifest|to manifest|trigger)(.{20,400})", t)
                need = " ".join((k.group(2) if k else t[:300]).split())[:300]
            except Exception: need = "see notes"
        out.append(f"  - {f}: {need[:300]}")
    open(f"/tmp/seed/{pid}.prop{rnd}.txt", "w").write("\n".join(out) + "\n")
    print(pid, len(out))
