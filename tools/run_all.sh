#!/bin/bash
# tools/run_all.sh [tier] [ids...] : run every registered check (from MANIFEST.json) and summarise
cd "$(dirname "$0")/.."
tier="${1:-quick}"; shift
ids="$*"
[ -z "$ids" ] && ids=$(python3 -c "import json;print(' '.join(c['property_id'] for c in json.load(open('MANIFEST.json'))['checks']))")
for id in $ids; do
  s=$(date +%s.%N)
  out=$(timeout 7200 ./check $id --tier $tier 2>&1); rc=$?
  e=$(date +%s.%N)
  printf "%s rc=%s %.1fs  %s\n" "$id" "$rc" "$(echo "$e - $s" | bc)" "$(echo "$out" | grep -E 'VIOLATION|KNOWN-FINDING|HARNESS|held' | head -3 | tr '\n' ' ' | cut -c1-220)"
done
