#!/bin/bash
# tools/adopt_round.sh <prefix>   e.g. r2  : adopt every finished /tmp/seed/<prefix>-Cxx worktree (has _seed/patch.diff + notes.md)
cd "$(dirname "$0")/.."
pre="$1"
for wt in /tmp/seed/$pre-C*; do
  [ -f "$wt/_seed/patch.diff" ] && [ -f "$wt/_seed/demo.py" ] && [ -f "$wt/_seed/notes.md" ] || continue
  pid=$(basename "$wt" | sed "s/^$pre-//")
  f=$(grep -m1 '^+++ b/' "$wt/_seed/patch.diff" | sed 's#^+++ b/##; s#.*/##; s#\.py.*##; s#^_##')
  name="$pid-$pre-$f"
  [ -d "seeded/$name" ] && continue
  out=$(timeout 900 python3 tools/adopt_seed.py "$wt" "$pid" "$name" 2>&1)
  if echo "$out" | grep -q "^ADOPTED"; then
    echo "ADOPTED $name"; git -C /repo worktree remove --force "$wt"
  else
    echo "NOT ADOPTED $name:"; echo "$out" | tail -5
  fi
done
