#!/bin/bash
# Usage: tools/with_mutant.sh <patch.diff> [--tests] -- <command...>
# Copies /repo's working tree (reactivex/, tests/, config) to a scratch dir under /var/tmp,
# applies the patch there, optionally runs the repository test-suite on it (--tests), then runs
# <command> with VERIF_REPO pointing at the scratch copy, and removes the copy.
# Never touches /repo.  Exit code = exit code of <command>.
set -u
patch_file="$(realpath "$1")"; shift
run_tests=0
if [ "${1:-}" = "--tests" ]; then run_tests=1; shift; fi
[ "${1:-}" = "--" ] && shift
scratch="$(mktemp -d /var/tmp/rxmut.XXXXXX)"
trap 'rm -rf "$scratch"' EXIT
rsync -a --exclude .git --exclude docs --exclude notebooks --exclude examples --exclude __pycache__ /repo/ "$scratch/"
if ! (cd "$scratch" && patch -p1 -s < "$patch_file"); then echo "PATCH-FAILED" >&2; exit 3; fi
if [ $run_tests = 1 ]; then
  (cd "$scratch" && PYTHONDONTWRITEBYTECODE=1 timeout 1200 /venv/bin/python -m pytest -q -p no:cacheprovider -x 2>&1 | tail -3)
fi
VERIF_REPO="$scratch" "$@"
