#!/usr/bin/env python3
"""Validate a seeded change produced by an independent sub-agent and adopt it under /verif/seeded/<name>/.

usage: tools/adopt_seed.py <worktree> <property-id> [name] [--needs "text"]
Validation (all in a fresh scratch copy of /repo's HEAD under /var/tmp, removed afterwards):
  1. patch applies; package imports
  2. repository test-suite passes with the patch
  3. demo exits non-zero with the patch, zero without
Then copies patch.diff, demo.py, notes.md and writes meta.json; removes the worktree.
"""
import json, os, shutil, subprocess, sys, tempfile

def sh(cmd, cwd=None, timeout=1800):
    p = subprocess.run(cmd, shell=True, cwd=cwd, capture_output=True, text=True, timeout=timeout)
    return p.returncode, (p.stdout + p.stderr)

def main():
    args = sys.argv[1:]
    needs = None
    if "--needs" in args:
        i = args.index("--needs"); needs = args[i + 1]; del args[i:i + 2]
    wt, pid = args[0], args[1]
    name = args[2] if len(args) > 2 else pid
    seed = os.path.join(wt, "_seed")
    for f in ("patch.diff", "demo.py"):
        if not os.path.exists(os.path.join(seed, f)):
            print("MISSING", f); return 2
    scratch = tempfile.mkdtemp(prefix="rxseed.", dir="/var/tmp")
    ran = []
    try:
        rc, out = sh(f"git -C /repo archive HEAD | tar -x -C {scratch}")
        assert rc == 0, out
        os.makedirs(os.path.join(scratch, "_seed"), exist_ok=True)
        shutil.copy(os.path.join(seed, "demo.py"), os.path.join(scratch, "_seed", "demo.py"))
        env = "PYTHONDONTWRITEBYTECODE=1"
        rc0, out0 = sh(f"{env} timeout 300 /venv/bin/python _seed/demo.py", cwd=scratch)
        ran.append(f"demo without change: exit {rc0}")
        rc, out = sh(f"git apply --whitespace=nowarn {os.path.join(seed, 'patch.diff')}", cwd=scratch)
        if rc != 0:
            rc, out = sh(f"patch -p1 < {os.path.join(seed, 'patch.diff')}", cwd=scratch)
        if rc != 0:
            print("PATCH DOES NOT APPLY to /repo HEAD:", out[-500:]); return 1
        rc1, out1 = sh(f"{env} timeout 300 /venv/bin/python _seed/demo.py", cwd=scratch)
        ran.append(f"demo with change: exit {rc1}")
        rct, outt = sh(f"{env} timeout 1500 /venv/bin/python -m pytest -q -p no:cacheprovider 2>&1 | tail -3", cwd=scratch)
        tail = outt.strip().splitlines()[-1] if outt.strip() else ""
        ran.append(f"repository test-suite with change: {tail}")
        ok = rc0 == 0 and rc1 != 0 and " passed" in tail and "failed" not in tail and "error" not in tail.lower()
        print("\n".join(ran))
        if not ok:
            print("REJECTED"); print(out0[-400:]); print(out1[-400:]); return 1
        dst = os.path.join("/verif/seeded", name)
        os.makedirs(dst, exist_ok=True)
        for f in ("patch.diff", "demo.py", "notes.md"):
            if os.path.exists(os.path.join(seed, f)):
                shutil.copy(os.path.join(seed, f), os.path.join(dst, f))
        meta = {"property": pid, "breaks": pid, "needs_to_manifest": needs or "see notes.md",
                "validated": ran, "validated_against": subprocess.check_output("git -C /repo rev-parse --short HEAD", shell=True, text=True).strip(),
                "caught_by": None}
        mp = os.path.join(dst, "meta.json")
        if os.path.exists(mp):
            old = json.load(open(mp)); meta["caught_by"] = old.get("caught_by")
        json.dump(meta, open(mp, "w"), indent=1)
        print("ADOPTED", dst)
        return 0
    finally:
        shutil.rmtree(scratch, ignore_errors=True)

if __name__ == "__main__":
    rc = main()
    sys.exit(rc)
