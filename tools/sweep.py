"""dev tool: sweep random fault-free pipelines; bucket escaped exceptions / on_error types."""
import sys, os, collections, traceback
sys.path.insert(0, os.environ.get("VERIF_REPO", "/repo")); sys.path.insert(1, "/verif")
from hypothesis import given, settings, seed, HealthCheck
from vlib.pipes import pipelines, Builder, op_names
from vlib.lab import Lab
from vlib.values import Tagged
N = int(sys.argv[1]) if len(sys.argv) > 1 else 2000
buckets = collections.Counter(); examples = {}
opcount = collections.Counter()
@seed(int(os.environ.get("VERIF_SEED","1")))
@settings(max_examples=N, deadline=None, database=None, suppress_health_check=list(HealthCheck))
@given(pipelines(max_ops=3))
def t(pc):
    lab = Lab(); B = Builder(lab)
    for n in op_names(pc): opcount[n]+=1
    try:
        o = B.build(pc)
        p = lab.probe("p", inner={"mode":"now"})
        p.subscribe(o)
        lab.run()
    except Exception as e:
        lab.escaped = e
    def note(kind, e):
        tb = traceback.extract_tb(e.__traceback__)
        fr = tb[-1] if tb else None
        k = (kind, type(e).__name__, str(e)[:80], f"{fr.filename.split('/')[-1]}:{fr.name}:{fr.lineno}" if fr else "")
        buckets[k]+=1
        examples.setdefault(k, pc)
    if lab.escaped is not None: note("escaped", lab.escaped)
    if lab.inconclusive: buckets[("inconclusive", lab.inconclusive)] += 1; examples.setdefault(("inconclusive", lab.inconclusive), pc)
    for q in lab.probes:
        for ev in q.events:
            if ev[1]=="E" and not (ev[2][0]=="exc" and len(ev[2])==2):
                buckets[("on_error",)+tuple(ev[2][1:])]+=1; examples.setdefault(("on_error",)+tuple(ev[2][1:]), pc)
t()
for k,v in buckets.most_common(): print(v, k, "\n    ", examples[k])
print(len(opcount), "ops used; least:", opcount.most_common()[-8:])
