#!/bin/bash
# Re-check that every seeded patch still applies to /repo HEAD; if not, rebase it (cherry-pick from the commit it was
# validated against) in a scratch worktree and rewrite patch.diff. Never touches /repo's working tree.
cd "$(dirname "$0")/.."
for d in seeded/*/; do
  n=$(basename $d)
  if git -C /repo apply --check "$PWD/$d/patch.diff" 2>/dev/null; then continue; fi
  base=$(python3 -c "import json;print(json.load(open('$d/meta.json'))['validated_against'])")
  wt=$(mktemp -d /var/tmp/rxrebase.XXXXXX); rmdir $wt
  git -C /repo worktree add -q --detach $wt $base || { echo "$n: cannot create worktree at $base"; continue; }
  ( cd $wt && git apply "$OLDPWD/$d/patch.diff" && git -c user.name=x -c user.email=x@x commit -qam seed && s=$(git rev-parse HEAD) && git checkout -q --detach $(git -C /repo rev-parse HEAD) && git -c user.name=x -c user.email=x@x cherry-pick -n $s >/dev/null 2>&1 && git diff HEAD -- reactivex > /tmp/rebased.diff )
  rc=$?
  if [ $rc = 0 ] && [ -s /tmp/rebased.diff ]; then cp /tmp/rebased.diff $d/patch.diff; python3 - <<PY
import json,subprocess
p='$d/meta.json'; m=json.load(open(p)); m['validated_against']=subprocess.check_output('git -C /repo rev-parse --short HEAD',shell=True,text=True).strip(); m.setdefault('validated',[]).append('patch rebased onto later fix commits (3-way); demo/suite re-validation: see tools/adopt_seed.py'); json.dump(m,open(p,'w'),indent=1)
PY
    echo "$n: REBASED"
  else echo "$n: REBASE FAILED (conflict) - needs manual attention"; fi
  git -C /repo worktree remove --force $wt
done
