#!/bin/bash
# Regenerate section 10 of DESIGN.md between the GENERATED markers.
cd "$(dirname "$0")/.."
PYTHONPATH=$PWD /venv/bin/python tools/design_tables.py > /tmp/appendix.md 2>/tmp/appendix.err || { tail -5 /tmp/appendix.err; exit 1; }
python3 - <<'PY'
s=open('DESIGN.md').read(); a=open('/tmp/appendix.md').read()
b='<!-- BEGIN GENERATED 10 -->'; e='<!-- END GENERATED 10 -->'
i=s.index(b)+len(b); j=s.index(e)
open('DESIGN.md','w').write(s[:i]+'\n'+a+'\n'+s[j:])
print("DESIGN.md section 10 regenerated:", len(a.splitlines()), "lines")
PY
