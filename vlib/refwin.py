"""Independent reference simulation for windowing / grouping operators (owned by C18/C19).

Nothing here imports reactivex.  A simulation is a plain function `sim(chooser) -> outcome`
built on `Loop`, a tiny discrete-event loop with its own stable priority queue.  Two classes of
events exist at a virtual instant T:

  * the *burst*: the source notifications whose timestamp is T (elements in arrival order, then the
    terminal if it is at T) — always processed atomically, in timeline order;
  * *rule events*: timers, boundary / opening / closing / duration notifications scheduled for T.

Where the property text is silent about an exact tie (a rule event at the very instant of source
notifications) both orders are acceptable, but the choice is made once per rule event for the *whole*
burst (consistency).  `Chooser` records those binary choices and `outcomes()` enumerates every
combination (depth-first odometer), so an oracle can accept an observation iff it equals one of the
enumerated outcomes.  Rule events created by a rule event that ran before the burst may again run before
it; everything created by the burst or after it runs after it (causality).
"""
from __future__ import annotations

import heapq


class SimSpin(Exception):
    """The reference simulation itself does not settle at one instant (degenerate closings)."""


class Chooser:
    def __init__(self, prefix=()):
        self.prefix = list(prefix)
        self.asked = 0

    def rule_first(self):
        """True: run this rule event before the pending burst of the same instant."""
        i = self.asked
        self.asked += 1
        return bool(self.prefix[i]) if i < len(self.prefix) else False

    def made(self):
        return [(self.prefix[i] if i < len(self.prefix) else 0) for i in range(self.asked)]


def outcomes(sim, cap=512):
    """Yield (choices, outcome) for every combination of tie choices; stops after `cap` runs
    (then yields a final (None, None) marker)."""
    prefix = []
    n = 0
    while True:
        ch = Chooser(prefix)
        out = sim(ch)
        n += 1
        made = ch.made()
        yield made, out
        j = len(made) - 1
        while j >= 0 and made[j] == 1:
            j -= 1
        if j < 0:
            return
        prefix = made[:j] + [1]
        if n >= cap:
            yield None, None
            return


class Loop:
    """Discrete-event loop.  `src` is a list of [t, kind, payload] sorted by t (stable)."""

    def __init__(self, chooser, horizon):
        self.ch = chooser
        self.horizon = horizon
        self.q = []
        self.seq = 0
        self.now = 0
        self.stopped = False
        self.tie_instants = 0

    def at(self, t, fn):
        heapq.heappush(self.q, (t, self.seq, fn))
        self.seq += 1

    def run(self, src, on_src):
        i = 0
        spins = 0
        last_t = None
        while not self.stopped:
            cand = []
            if self.q:
                cand.append(self.q[0][0])
            if i < len(src):
                cand.append(src[i][0])
            if not cand:
                break
            t = min(cand)
            if t > self.horizon:
                break
            if t == last_t:
                spins += 1
                if spins > 300:
                    raise SimSpin()
            else:
                last_t, spins = t, 0
            self.now = t
            burst = []
            while i < len(src) and src[i][0] == t:
                burst.append(src[i])
                i += 1
            deferred = []
            asked_here = False
            n_here = 0
            while self.q and self.q[0][0] == t and not self.stopped:
                n_here += 1
                if n_here > 300:
                    raise SimSpin()
                _, _, fn = heapq.heappop(self.q)
                if burst:
                    asked_here = True
                    if self.ch.rule_first():
                        fn()
                    else:
                        deferred.append(fn)
                else:
                    fn()
            if asked_here:
                self.tie_instants += 1
            for m in burst:
                if self.stopped:
                    break
                on_src(m)
            for fn in deferred:
                if self.stopped:
                    break
                fn()


class Windows:
    """Book-keeping shared by the window machines: ordered windows, open set, outer terminal."""

    def __init__(self, loop):
        self.loop = loop
        self.wins = []
        self.open = []
        self.outer_end = None

    def open_win(self):
        w = {"open": self.loop.now, "items": [], "end": None}
        self.wins.append(w)
        self.open.append(w)
        return w

    def close_win(self, w, kind="C", payload=None):
        if w["end"] is None:
            w["end"] = [self.loop.now, kind, payload]
            self.open.remove(w)

    def deliver(self, v):
        for w in self.open:
            w["items"].append([self.loop.now, v])

    def end_all(self, kind, payload, outer=True, stop=True):
        for w in list(self.open):
            self.close_win(w, kind, payload)
        if outer and self.outer_end is None:
            self.outer_end = [self.loop.now, kind, payload]
        if stop:
            self.loop.stopped = True

    def result(self):
        return {"wins": self.wins, "outer_end": self.outer_end}


def _term_payload(m):
    return ["exc", m[2]] if m[1] == "E" else None


# ------------------------------------------------------------------------------------------------
# window machines.  Each returns sim(chooser) -> {"wins": [...], "outer_end": ...}
# src: effective absolute source timeline with canonical payloads for N ([t, "N", canon]).


def sim_time(src, sub, span, shift, horizon):
    """window_with_time: window k is open from sub+k*shift to sub+k*shift+span."""

    def sim(ch):
        loop = Loop(ch, horizon)
        W = Windows(loop)
        loop.now = sub
        W.open_win()
        instants = {}
        k = 1
        while sub + k * shift <= horizon:
            instants.setdefault(sub + k * shift, [[], []])[0].append(k)
            k += 1
        k = 0
        while sub + k * shift + span <= horizon:
            instants.setdefault(sub + k * shift + span, [[], []])[1].append(k)
            k += 1

        def mk(opens, closes):
            def fire():
                for _ in opens:
                    W.open_win()
                for kk in closes:
                    if kk < len(W.wins):
                        W.close_win(W.wins[kk])

            return fire

        for t in sorted(instants):
            loop.at(t, mk(*instants[t]))

        def on_src(m):
            if m[1] == "N":
                W.deliver(m[2])
            else:
                W.end_all(m[1], _term_payload(m))

        loop.run(src, on_src)
        out = W.result()
        out["ties"] = loop.tie_instants
        return out

    return sim


def sim_toc(src, sub, span, count, horizon):
    """window_with_time_or_count: one window at a time, closed by `count` elements or `span` time since it opened."""

    def sim(ch):
        loop = Loop(ch, horizon)
        W = Windows(loop)
        loop.now = sub
        st = {"cur": None, "n": 0, "gen": 0}

        def open_new():
            st["cur"] = W.open_win()
            st["n"] = 0
            st["gen"] += 1
            g = st["gen"]

            def fire():
                if st["gen"] == g:
                    W.close_win(st["cur"])
                    open_new()

            loop.at(loop.now + span, fire)

        open_new()

        def on_src(m):
            if m[1] == "N":
                W.deliver(m[2])
                st["n"] += 1
                if st["n"] == count:
                    W.close_win(st["cur"])
                    open_new()
            else:
                W.end_all(m[1], _term_payload(m))

        loop.run(src, on_src)
        out = W.result()
        out["ties"] = loop.tie_instants
        return out

    return sim


def sim_boundary(src, sub, btl, horizon):
    """window(boundaries): each boundary element closes the current window and opens the next;
    the boundaries' completion ends the current window and the outer sequence (repository tests)."""

    def sim(ch):
        loop = Loop(ch, horizon)
        W = Windows(loop)
        loop.now = sub
        st = {"cur": W.open_win()}

        def mk(m):
            def fire():
                if m[1] == "N":
                    W.close_win(st["cur"])
                    st["cur"] = W.open_win()
                else:
                    W.end_all(m[1], _term_payload(m))

            return fire

        for m in btl:
            loop.at(m[0], mk(m))

        def on_src(m):
            if m[1] == "N":
                W.deliver(m[2])
            else:
                W.end_all(m[1], _term_payload(m))

        loop.run(src, on_src)
        out = W.result()
        out["ties"] = loop.tie_instants
        return out

    return sim


def sim_when(src, sub, closings, horizon):
    """window_when: the i-th window's closing observable is closings[i % len]; its first notification
    (element or completion) at open+dt closes the window and opens the next one."""

    def sim(ch):
        loop = Loop(ch, horizon)
        W = Windows(loop)
        loop.now = sub
        st = {"cur": None, "calls": 0}

        def open_new():
            st["cur"] = W.open_win()
            c = closings[st["calls"] % len(closings)]
            st["calls"] += 1
            if c["dt"] is not None:

                def fire():
                    W.close_win(st["cur"])
                    open_new()

                loop.at(loop.now + c["dt"], fire)

        open_new()

        def on_src(m):
            if m[1] == "N":
                W.deliver(m[2])
            else:
                W.end_all(m[1], _term_payload(m))

        loop.run(src, on_src)
        out = W.result()
        out["ties"] = loop.tie_instants
        out["calls"] = st["calls"]
        return out

    return sim


def sim_toggle(src, sub, otl, closings, horizon, completion_ends_windows=True):
    """window_toggle: every opening element v opens a window that closes at the first notification of
    closings[v % len] (subscribed at the opening).  Source error ends all open windows and the outer;
    the openings' completion ends the outer only.  completion_ends_windows=True is the property text
    (open windows end with the source's completion; nothing after that instant is specified, the
    simulation stops and outer_end is "unspecified"); False models group_join's behaviour (windows
    outlive the source's completion) and is only used to *name* a deviation."""

    def sim(ch):
        loop = Loop(ch, horizon)
        W = Windows(loop)
        loop.now = sub

        def mk(m):
            def fire():
                if W.outer_end is not None:
                    return
                if m[1] == "N":
                    w = W.open_win()
                    c = closings[m[2] % len(closings)]
                    if c["dt"] is not None:
                        # "sync": the closing fires inside its own subscribe call - a zero-length window, closed at
                        # the instant it opens (like dt=0 it may still straddle the burst of that instant)
                        loop.at(loop.now + (0 if c["dt"] == "sync" else c["dt"]), lambda: W.close_win(w))
                else:
                    W.outer_end = [loop.now, m[1], _term_payload(m)]

            return fire

        for m in otl:
            loop.at(m[0], mk(m))
        st = {"src_done": False}

        def on_src(m):
            if st["src_done"]:
                return
            if m[1] == "N":
                W.deliver(m[2])
            elif m[1] == "E":
                W.end_all("E", _term_payload(m))
            else:
                st["src_done"] = True
                if completion_ends_windows:
                    W.end_all("C", None, outer=False)
                    if W.outer_end is None:
                        W.outer_end = "unspecified"

        loop.run(src, on_src)
        out = W.result()
        out["ties"] = loop.tie_instants
        return out

    return sim


def sim_group_join(left, right, sub, ldur, rdur, horizon):
    """group_join(right, left_duration, right_duration) applied to left ("correlates the elements of two
    sequences based on overlapping durations, and groups the results").

    left / right: effective absolute timelines.  Left payloads are ints, the window of left value v lasts
    until ldur[v % len]["dt"] after it opened (None: for ever).  Right payloads are [canon, j]; the value is
    *alive* from its arrival until rdur[j]["dt"] later (None: for ever, "sync": zero duration).  A window
    receives the right values alive when it opens (in arrival order) and every right value arriving while
    it is open.  Right durations are generated off the integer grid so their expiry never ties with
    anything.  The right sequence is the burst; left notifications and left durations are rule events.
    Left completion ends the outer sequence only; right completion ends nothing; a right error ends all
    open windows and the outer sequence."""

    def sim(ch):
        loop = Loop(ch, horizon)
        W = Windows(loop)
        loop.now = sub
        alive = []
        keys = []
        st = {"replayed": 0}

        def mk(m):
            def fire():
                if m[1] == "N":
                    w = W.open_win()
                    keys.append(["int", m[2]])
                    for ent in alive:
                        w["items"].append([loop.now, ent[0]])
                        st["replayed"] += 1
                    c = ldur[m[2] % len(ldur)]
                    if c["dt"] is not None:
                        # "sync": the closing fires inside its own subscribe call - a zero-length window, closed at
                        # the instant it opens (like dt=0 it may still straddle the burst of that instant)
                        loop.at(loop.now + (0 if c["dt"] == "sync" else c["dt"]), lambda: W.close_win(w))
                elif W.outer_end is None:
                    W.outer_end = [loop.now, "C", None]

            return fire

        for m in left:
            loop.at(m[0], mk(m))

        def on_src(m):
            if m[1] == "N":
                v, j = m[2]
                c = rdur[j]
                if c["dt"] != "sync":
                    ent = [v]
                    alive.append(ent)
                    if c["dt"] is not None:
                        loop.at(loop.now + c["dt"], lambda: alive.remove(ent))
                W.deliver(v)
            elif m[1] == "E":
                W.end_all("E", _term_payload(m))

        loop.run(right, on_src)
        out = W.result()
        out["keys"] = keys
        out["ties"] = loop.tie_instants
        out["replayed"] = st["replayed"]
        return out

    return sim


# ------------------------------------------------------------------------------------------------
# grouping machine (C19)


def sim_group_by_until(src, sub, keyfn, elemfn, durations, horizon, echo=0):
    """group_by_until: src payloads are python values (not canon); keyfn/elemfn are the pure functions;
    durations: list of {"dt": int|None}, the j-th created group uses durations[j % len] (None: never).
    Key identity is Python dict identity (== and hash).
    echo=n: the first n group *expiries* are answered, synchronously from the expiring group's completion, by a new
    source element equal to that group's key (identity key function): it arrives after its group expired, so it
    opens a new group."""
    from .values import canon

    def sim(ch):
        loop = Loop(ch, horizon)
        loop.now = sub
        live = {}
        groups = []
        res = {"outer_end": None, "recreated": 0, "open_at_error": 0, "echoed": 0}
        seen = {}
        budget = [echo]

        def on_src(m):
            if m[1] == "N":
                x = m[2]
                k = keyfn(x)
                g = live.get(k)
                if g is None:
                    g = {"key": canon(k), "open": loop.now, "items": [], "end": None}
                    if k in seen:
                        res["recreated"] += 1
                    seen[k] = True
                    live[k] = g
                    d = durations[len(groups) % len(durations)] if durations else {"dt": None}
                    groups.append(g)
                    if d["dt"] is not None:

                        def fire(g=g, k=k):
                            if live.get(k) is g:
                                del live[k]
                                g["end"] = [loop.now, "C", None]
                                if budget[0] > 0:
                                    budget[0] -= 1
                                    res["echoed"] += 1
                                    on_src([loop.now, "N", k])

                        loop.at(loop.now + d["dt"], fire)
                g["items"].append([loop.now, canon(elemfn(x))])
            else:
                if m[1] == "E":
                    res["open_at_error"] = len(live)
                for g in live.values():
                    g["end"] = [loop.now, m[1], _term_payload(m)]
                live.clear()
                res["outer_end"] = [loop.now, m[1], _term_payload(m)]
                loop.stopped = True

        loop.run(src, on_src)
        res["groups"] = groups
        res["ties"] = loop.tie_instants
        return res

    return sim
