"""Shared Engine-DET plumbing for props/C32 (observe_on / ScheduledObserver) and props/C43 (combinators under
concurrently emitting sources).  Owner: the C32/C43 builder.

What is here
* `fresh_thread_state()`   make per-thread singletons (CurrentThreadScheduler trampolines) and class-level scheduler
                           singletons start from the same state in every run, so that pooled worker threads
                           (`reuse_threads=True`) give the same step numbering run after run.
* `Boom`                   the exception a probe raises on request.
* `Probe`                  downstream observer: records every call at entry, keeps the stack of calls in flight
                           (kind, tid) and reports a call that starts while a call of ANOTHER thread is in flight,
                           yields (det.yield_point) inside every callback, may raise at delivery k, may adopt
                           Observable-valued elements (windows) with child probes.
* `explore / walk`         schedule exploration on top of det.run_program: exhaustive up to K preemptions (optionally
                           one slice i/m of the first-level preemptions, to spread one program over several cases) and a
                           drawn walk down the same tree (every drawn preemption is effective by construction).
* `drive`                  case runner shared by both property modules: modes all / walk / exact, determinism checks,
                           reproducibility of every verdict, evidence classes.
"""
from __future__ import annotations

import logging
import weakref

from vlib import det
from vlib.core import FAIL, OK, SKIP, HarnessError


def import_all():
    """Import every reactivex submodule NOW (before any det.patched()).  reactivex imports most operator / observable
    modules lazily inside the factory functions; a module first imported while a patch is active is not in det's scan and
    keeps the real threading.RLock/Timer -> a contended real lock blocks the OS thread and the run hangs."""
    import importlib
    import pkgutil

    import reactivex

    for m in pkgutil.walk_packages(reactivex.__path__, "reactivex."):
        if ".scheduler.eventloop" in m.name or ".scheduler.mainloop" in m.name or m.name.startswith("reactivex.testing"):
            continue  # optional third-party event loops; not used by these checks
        try:
            importlib.import_module(m.name)
        except ImportError:
            pass


import_all()

RUN_KW = dict(max_steps=8000, reuse_threads=True, wall_timeout=30.0)


class Boom(Exception):
    """Raised by a probe callback on request (case data: raise_at)."""

    def __init__(self, tag):
        super().__init__(tag)
        self.tag = tag

    def __repr__(self):
        return f"Boom({self.tag!r})"


def fresh_thread_state():
    """Call at the start of every factory() (harness thread, free mode, while patched).

    `Observable.subscribe` goes through `CurrentThreadScheduler.singleton()` which caches one scheduler per OS thread
    (class-level WeakKeyDictionary) and one trampoline per OS thread (a threading.local).  With pooled worker threads
    the first run of a process would execute the creation path and later runs the cached path, i.e. different step
    numbering for the same (program, schedule).  Re-creating both containers per run removes that; det.unpatch restores
    the originals it saved.  TimeoutScheduler's process-wide singleton is created here for the same reason."""
    from reactivex.scheduler import TimeoutScheduler
    from reactivex.scheduler import currentthreadscheduler as cts

    cts.CurrentThreadScheduler._global = weakref.WeakKeyDictionary()
    cts.CurrentThreadSchedulerSingleton._local = type(cts.CurrentThreadSchedulerSingleton._local)()
    TimeoutScheduler.singleton()


class Probe:
    """Downstream observer.  events = [[kind, value, tid]] in order of call ENTRY ('N' value, 'E' repr, 'C' None).
    overlaps = [[kind, tid, [[kind, tid] of the calls of other threads in flight]]]."""

    def __init__(self, name, raise_at=None, window_factory=None, yield_in_cb=True, dispose_at=None, disposer=None, sleep_at=None):
        self.name = name
        self.events = []
        self.times = []  # fake-clock microseconds at call entry, parallel to events
        self.stack = []
        self.overlaps = []
        self.raise_at = raise_at
        self.raised = []
        self.children = []
        self.window_factory = window_factory
        self.yield_in_cb = yield_in_cb
        self.dispose_at = dispose_at  # call disposer() from inside delivery number dispose_at (on the delivering thread)
        self.disposer = disposer
        self.disposed_in_cb = None
        self.sleep_at = sleep_at or {}  # {call index: seconds}: the callback blocks that long on the fake clock (a slow consumer)
        self.slept = []

    def _call(self, kind, value):
        tid = det.current_tid()
        others = [[k, t] for k, t in self.stack if t != tid]
        if others:
            self.overlaps.append([kind, tid, others])
        idx = len(self.events)
        self.events.append([kind, value, tid])
        self.times.append(det._clock.us)
        me = (kind, tid)
        self.stack.append(me)
        det.log("cb", self.name, kind, idx)
        try:
            if self.yield_in_cb:
                det.yield_point("probe:" + kind)
            if idx in self.sleep_at:
                self.slept.append(idx)
                det.CEvent().wait(self.sleep_at[idx])
            if kind == "N" and self.window_factory is not None and hasattr(value, "subscribe"):
                child = self.window_factory(self, len(self.children))
                self.children.append(child)
                self.events[idx][1] = "win%d" % (len(self.children) - 1)
                value.subscribe(child)
                if self.yield_in_cb:
                    det.yield_point("probe:after-window-subscribe")
            if self.dispose_at is not None and idx == self.dispose_at and self.disposer is not None:
                if self.disposer():
                    self.disposed_in_cb = idx
                    det.log("cb-disposed", self.name, idx)
                    if self.yield_in_cb:
                        det.yield_point("probe:after-dispose")
            if self.raise_at is not None and idx == self.raise_at:
                self.raised.append(idx)
                raise Boom(f"{self.name}@{idx}")
        finally:
            self.stack.remove(me)
            det.log("cb-ret", self.name, kind, idx)

    def on_next(self, v):
        self._call("N", v)

    def on_error(self, e):
        self._call("E", repr(e))

    def on_completed(self):
        self._call("C", None)

    # ---- oracles ---------------------------------------------------------------------------
    def kinds(self):
        return "".join(e[0] for e in self.events)

    def grammar_ok(self):
        k = self.kinds()
        body = k.rstrip("EC")
        return set(body) <= {"N"} and len(k) - len(body) <= 1

    def all_probes(self):
        out = [self]
        for c in self.children:
            out += c.all_probes()
        return out


# ---------------------------------------------------------------------------------------------
# schedule exploration
# ---------------------------------------------------------------------------------------------
def explore(factory, K, slice_=None, **kw):
    """Like det.explore (breadth-first, fewest preemptions first) plus `slice_=[i, m]`: only the first-level
    preemptions whose index is i modulo m are expanded (the unpreempted run is always yielded)."""
    c0 = det._clock.us
    level = [[]]
    for k in range(K + 1):
        nxt = []
        for sched in level:
            det._clock.us = c0
            threads, ctx = factory()
            res = det.run_program(threads, sched, **kw)
            yield sched, res, ctx
            if k < K:
                after = sched[-1][0] if sched else -1
                cand = det.next_preemptions(res, after)
                if k == 0 and slice_:
                    cand = [p for j, p in enumerate(cand) if j % slice_[1] == slice_[0]]
                nxt.extend(sched + [p] for p in cand)
        level = nxt


def walk(factory, points, **kw):
    """Drawn descent of the exploration tree: start from the unpreempted run; the j-th number picks one of the
    effective preemptions after the previous one.  Yields (schedule, RunResult, ctx) for every run on the path."""
    c0 = det._clock.us
    sched = []
    for j in range(len(points) + 1):
        det._clock.us = c0
        threads, ctx = factory()
        res = det.run_program(threads, sched, **kw)
        yield list(sched), res, ctx
        if j == len(points):
            return
        cand = det.next_preemptions(res, sched[-1][0] if sched else -1)
        if not cand:
            return
        sched = sched + [cand[points[j] % len(cand)]]


def scaled(cases, tier):
    """Validation aid: enumerations are not covered by the runner's VERIF_SCALE, so a thorough enumeration honours it
    here by keeping every round(1/scale)-th case (a scaled run is a smoke test of the tier, not an exhaustive one)."""
    import os

    scale = float(os.environ.get("VERIF_SCALE", "1") or "1")
    step = max(1, round(1 / scale)) if (tier == "thorough" and 0 < scale < 1) else 1
    for i, c in enumerate(cases):
        if i % step == 0:
            yield c


def sched_all(K, slice_=None):
    d = {"mode": "all", "K": K}
    if slice_:
        d["slice"] = list(slice_)
    return d


def sched_walks(K=3):
    from hypothesis import strategies as st

    return st.lists(st.integers(0, 9999), min_size=1, max_size=K).map(lambda p: {"mode": "walk", "points": p})


def innermost_library_file(exc):
    """Basename of the innermost reactivex file in the traceback of an escaped exception (None if none)."""
    import os

    d = det.reactivex_dir()
    tb, last = exc.__traceback__, None
    while tb is not None:
        fn = tb.tb_frame.f_code.co_filename
        if fn.startswith(d):
            last = os.path.basename(fn) + ":" + tb.tb_frame.f_code.co_name
        tb = tb.tb_next
    return last


def emission_overlap(res, nprog):
    """True if some program thread's emission (det.log('emit', ...) .. det.log('emit-ret', ...)) had an event of a
    different thread strictly inside it.  Events are (step, tid, payload)."""
    open_ = {}
    for _, tid, pl in res.events:
        for t in open_:
            if t != tid:
                open_[t] = True
        if isinstance(pl, tuple) and pl and pl[0] == "emit":
            open_[tid] = False
        elif isinstance(pl, tuple) and pl and pl[0] == "emit-ret":
            if open_.pop(tid, False):
                return True
    return False


def drive(case, factory, judge, *, culprit, kw=None, nontrivial=None, classes=None):
    """Run one DET case.

    case["sched"] = {"mode": "all", "K": k[, "slice": [i, m]]} | {"mode": "walk", "points": [ints]}
                  | {"mode": "exact", "points": [[step, tid], ...]}
    factory() -> (threads, ctx)            builds fresh objects (call fresh_thread_state() first)
    judge(ctx, res) -> None | (clause, detail) | (clause, detail, culprit)      signature = "clause|culprit"
    nontrivial(ctx, res) -> bool           per run; a case is non-trivial if one of its runs is
    classes(ctx, res) -> list[str]         evidence labels of the last run
    """
    kw = dict(RUN_KW, **(kw or {}))
    sched = case["sched"]
    lg = logging.getLogger("Rx")
    lvl = lg.level
    lg.setLevel(logging.ERROR)

    c0 = [0]

    def verdict(s, res, ctx):
        bad = judge(ctx, res)
        if bad is None:
            return None
        det._clock.us = c0[0]
        res2, ctx2 = det.run_checked(factory, s, **kw)
        bad2 = judge(ctx2, res2)
        if bad2 is None or bad2[0] != bad[0]:
            raise HarnessError(f"verdict not reproducible for schedule {s}: {bad} vs {bad2}")
        return bad[0], f"{bad[1]}; exact schedule={s}; {res2.describe()}; case={case}", (bad[2] if len(bad) > 2 else culprit)

    try:
        with det.patched():
            c0[0] = det._clock.us  # every run of the case starts at the same fake instant
            if sched["mode"] == "exact":
                runs = [(list(map(list, sched["points"])),) + _run(factory, sched["points"], kw)]
            elif sched["mode"] == "all":
                runs = explore(factory, sched["K"], sched.get("slice"), **kw)
            elif sched["mode"] == "walk":
                runs = walk(factory, sched["points"], **kw)
            else:
                raise HarnessError(f"bad sched {sched}")
            n = nt = incomplete = 0
            last = None
            seen_cl = {}
            for s, res, ctx in runs:
                if n == 0:
                    det._clock.us = c0[0]
                    res_b, _ = det.run_checked(factory, s, **kw)  # determinism of the first run, incl. pooled-thread state
                    if res_b.fingerprint() != res.fingerprint():
                        raise HarnessError(f"first run not deterministic: {res.describe()} vs {res_b.describe()}")
                n += 1
                if res.budget_exceeded:
                    incomplete += 1
                    continue
                v = verdict(s, res, ctx)
                if v:
                    return FAIL(f"{v[0]}|{v[2]}", v[1], classes=[sched["mode"]])
                nt += bool(nontrivial(ctx, res)) if nontrivial else 0
                last = (ctx, res)
                if classes:
                    for c in classes(ctx, res):  # evidence labels: union over all runs of the case
                        seen_cl.setdefault(c, None)
            if last is None:
                return SKIP("budget")
            cl = [sched["mode"]] + list(seen_cl)
            if sched["mode"] == "all":
                cl += [f"K{sched['K']}"] + [f"runs>={b}" for b in (10, 100, 1000) if n >= b]
            if incomplete:
                cl.append("some-runs-over-budget")
            return OK(nt > 0, cl)
    finally:
        lg.setLevel(lvl)


def _run(factory, sched, kw):
    threads, ctx = factory()
    res = det.run_program(threads, sched, **kw)
    return res, ctx
