"""Generic driver for Engine-DET property checks (owned by the C31 / C35-real-time builder).

A case carries `case["sched"]`:
    {"mode": "all", "K": k}                      every schedule with <= k preemptions (det.explore, fewest first)
    {"mode": "raw", "points": [[a, b]...]}       drawn preemptions: point i selects (by index (a+7919*b) mod n) one of the n
                                                 preemptions that are possible after point i-1 in the run obtained so far
    {"mode": "exact", "points": [[step, tid]...]} a concrete schedule (replays)

`drive(case, factory, judge, ...)` runs it and returns a vlib.core Result.
    factory() -> (thread callables, ctx)   builds FRESH objects; called while det.patched() with the fake clock at 0
    judge(ctx, res) -> (bad, nontrivial, classes)   bad = None | (clause, detail)
A failing (program, schedule) pair is re-run twice (det.run_checked) and must fail with the same clause, otherwise the
harness itself is at fault (HarnessError).  Runs cut by the step budget / horizon are inconclusive (SKIP) unless some
run of the case failed.
"""
from __future__ import annotations

from datetime import timedelta

from vlib import det
from vlib.core import FAIL, OK, SKIP, HarnessError

_US = timedelta(microseconds=1)


def now_us() -> int:
    """Fake clock in integer microseconds since det.EPOCH."""
    return (det.now() - det.EPOCH) // _US


def sleep(seconds: float) -> None:
    """Cooperative sleep on the fake clock (the calling logical thread parks until fake-now + seconds)."""
    if seconds > 0:
        det.CEvent().wait(seconds)


def positions(events):
    """payload -> index of its first occurrence in the global (sequentially consistent) event order."""
    p = {}
    for k, (_, _, pl) in enumerate(events):
        p.setdefault(pl, k)
    return p


def drive(case, factory, judge, *, culprit, kw=None, check_every=4, accept=None):
    """accept(res) -> bool: is this run to be judged (default: it completed or deadlocked); others are inconclusive."""
    sched = case["sched"]
    accept = accept or (lambda res: res.complete or bool(res.deadlock))
    kw = dict(kw or {})
    kw.setdefault("reuse_threads", True)
    kw.setdefault("max_steps", 20000)

    with det.patched() as env:

        def fresh():
            env.clock.us = 0
            return factory()

        def verdict(s, res, ctx):
            bad, nt, cl = judge(ctx, res)
            if bad is None:
                return None, nt, cl
            env.clock.us = 0
            res2, ctx2 = det.run_checked(factory, s, **kw)
            bad2, _, _ = judge(ctx2, res2)
            if bad2 is None or bad2[0] != bad[0]:
                raise HarnessError(f"verdict not reproducible for schedule {s}: {bad} vs {bad2}")
            return (bad[0], f"{bad[1]}; exact schedule={s}; {res2.describe()}; case={case}"), nt, cl

        if sched["mode"] == "all":
            runs = nt_any = incomplete = 0
            classes = set()
            env.clock.us = 0
            for s, res, ctx in det.explore(factory, K=sched["K"], **kw):
                if runs == 0:
                    env.clock.us = 0
                    res_b, _ = det.run_checked(factory, s, **kw)
                    if res_b.fingerprint() != res.fingerprint():
                        raise HarnessError("base run not deterministic")
                    env.clock.us = 0
                runs += 1
                if not accept(res):
                    incomplete += 1
                    continue
                v, nt, cl = verdict(s, res, ctx)
                env.clock.us = 0
                if v:
                    return FAIL(f"{v[0]}|{culprit}", v[1], classes=["exhaustive"])
                nt_any += bool(nt)
                classes.update(cl)
            if incomplete:
                return SKIP("budget")
            cl = ["exhaustive", f"K{sched['K']}"] + sorted(classes) + [f"runs>={b}" for b in (10, 100, 1000) if runs >= b]
            return OK(nt_any > 0, cl)

        threads, ctx = fresh()
        if sched["mode"] == "raw":
            # every drawn point becomes an EFFECTIVE preemption: point i picks one of the preemptions that are possible
            # after point i-1 in the run obtained so far (a runnable thread other than the one that ran the step)
            res = det.run_program(threads, **kw)
            s = []
            for pos, t in sched["points"]:
                if not accept(res):
                    break
                eff = det.next_preemptions(res, s[-1][0] if s else -1)
                if not eff:
                    break
                s = s + [list(eff[(int(pos) + 7919 * int(t)) % len(eff)])]
                threads, ctx = fresh()
                res = det.run_program(threads, s, **kw)
            if s and check_every and sum(p[0] for p in s) % check_every == 0:
                env.clock.us = 0
                res2, ctx = det.run_checked(factory, s, **kw)
                if res2.fingerprint() != res.fingerprint():
                    raise HarnessError(f"non-deterministic run for schedule {s}")
                res = res2
        else:
            s = [list(p) for p in sched["points"]]
            if check_every and sum(p[0] for p in s) % check_every == 0:
                env.clock.us = 0
                res, ctx = det.run_checked(factory, s, **kw)
            else:
                res = det.run_program(threads, s, **kw)
        if not accept(res):
            return SKIP("budget")
        v, nt, cl = verdict(s, res, ctx)
        if v:
            return FAIL(f"{v[0]}|{culprit}", v[1], classes=cl)
        return OK(nt, list(cl) + [f"switches:{min(len(res.switches()), 6)}"])


def sched_strategy(K=3, max_tid=4):
    from hypothesis import strategies as st

    return st.builds(lambda pts: {"mode": "raw", "points": pts}, det.raw_schedules(K=K, max_pos=4096, max_tid=max_tid))
