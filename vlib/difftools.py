"""Helpers shared by the differential checks C04 (re-subscription) and C44 (operator reuse).

Owned by the C04/C44 author.  Nothing here touches the library; everything works on the
JSON-able case descriptions and on the lab's recorded logs.
"""
from __future__ import annotations

import json
import re
import sys

from .lab import BudgetExceeded, Probe, SpinGuard

_BIG = 10**18
_ADDR = re.compile(r" at 0x[0-9a-fA-F]+")


def coldify(x):
    """Replace every embedded source spec {"kind": "hot", "tl": ...} by a cold one (same timeline,
    read relative to subscription).  Used where hot sources are excluded by the property text."""
    if isinstance(x, dict):
        if set(x.keys()) == {"kind", "tl"}:
            return {"kind": "cold" if x["kind"] == "hot" else x["kind"], "tl": x["tl"]}
        return {k: coldify(v) for k, v in x.items()}
    if isinstance(x, list):
        return [coldify(v) for v in x]
    return x


def has_hot(x):
    if isinstance(x, dict):
        if set(x.keys()) == {"kind", "tl"}:
            return x["kind"] == "hot"
        return any(has_hot(v) for v in x.values())
    if isinstance(x, list):
        return any(has_hot(v) for v in x)
    return False


def strip_obs(c):
    """Canonical form with harness-assigned observable ids removed (["obs", 7] -> ["obs"]).
    Only Observables canonicalise to a 2-list whose head is the *string* "obs" followed by an int."""
    if isinstance(c, list):
        if len(c) == 2 and c[0] == "obs" and isinstance(c[1], int) and not isinstance(c[1], bool):
            return ["obs"]
        return [strip_obs(e) for e in c]
    if isinstance(c, str) and " at 0x" in c:
        # canon() falls back to repr() for dataclasses (TimeInterval/Timestamp); an Observable inside prints its address
        return _ADDR.sub("", c)
    return c


def norm_tree(p, t0):
    """Probe.tree() made comparable between two subscriptions: ticks relative to t0, no observable ids,
    inner (window/group) probes kept in order of emission with their relative subscribe tick."""
    return {
        "t": [[e[0] - t0, e[1], strip_obs(e[2])] for e in p.events],
        "inner": [[None if ip.sub_tick is None else ip.sub_tick - t0, norm_tree(ip, t0)] for ip in p.inners],
    }


def runaway(trees):
    """True if any notification carries a RecursionError: an unbounded synchronous recursion was cut by the
    interpreter at a depth that depends on the caller's stack, so the run is not reproducible between worlds."""
    return any('"RecursionError"' in json.dumps(t) for t in trees)


def tree_has_next(tree):
    if any(e[1] == "N" for e in tree["t"]):
        return True
    return any(tree_has_next(sub) for _, sub in tree["inner"])


def first_diff(a, b):
    """Short human-readable description of the first difference between two normalised trees."""
    ta, tb = a["t"], b["t"]
    for i in range(max(len(ta), len(tb))):
        x = ta[i] if i < len(ta) else None
        y = tb[i] if i < len(tb) else None
        if x != y:
            return f"event #{i}: {x} vs {y}"
    ia, ib = a["inner"], b["inner"]
    if len(ia) != len(ib):
        return f"{len(ia)} vs {len(ib)} inner observables"
    for i, (x, y) in enumerate(zip(ia, ib)):
        if x[0] != y[0]:
            return f"inner #{i} subscribed at {x[0]} vs {y[0]}"
        if x[1] != y[1]:
            return f"inner #{i}: " + first_diff(x[1], y[1])
    return "?"


def dispose_tree(p):
    """Dispose a probe and every inner probe it adopted (only those that did subscribe)."""
    for ip in p.inners:
        dispose_tree(ip)
    if p.disposable is not None and p.disposed_tick is None:
        p.dispose()


def _iv_key(iv):
    return (iv[0], _BIG if iv[1] is None else iv[1])


def shift_intervals(subs, dt):
    return [[a + dt, None if b is None else b + dt] for a, b in subs]


def sort_intervals(subs):
    return sorted(([a, b] for a, b in subs), key=_iv_key)


def src_key(s):
    return json.dumps([s.timeline, bool(getattr(s, "sync", False)), type(s).__name__])


def runtime_multiset(sources):
    """Order-independent description of a list of logged sources: (timeline, subscription intervals)."""
    return sorted(json.dumps([src_key(s), sort_intervals(s.subs)]) for s in sources)


def guard_spin(lab, limit=95):
    """Make the lab discard (SpinGuard -> lab.inconclusive == "spin") every run in which the virtual-time
    scheduler dequeues `limit` items in a row without advancing its clock.

    The library bumps the clock by one unit after 100 such dequeues (C29's subject); a bumped run is no longer
    time-shift invariant, so it must not reach a differential oracle.  Lab's own guard counts *invoked* actions only;
    cancelled items also count towards the library's limit (measured: bump after 51 invoked actions), hence this
    dequeue-level guard.  Wraps the queue object of this lab's scheduler only."""
    q = lab.sched._queue
    orig = q.dequeue
    n = [0]

    def dequeue():
        item = orig()
        if item.duetime > lab.sched.now:
            n[0] = 0
        else:
            n[0] += 1
            if n[0] >= limit:
                raise SpinGuard()
        return item

    q.dequeue = dequeue


def guard_depth(lab, limit=400):
    """Discard (lab.inconclusive == "budget") runs whose Python stack grows beyond `limit` frames: an unbounded
    synchronous recursion (e.g. buffer_when whose closing observable fires inside subscribe) ends in a RecursionError at
    a depth that depends on the caller's stack and is partly swallowed by the library, so such runs are not reproducible
    between two worlds.  Measured: well-formed 6-operator pipelines stay below 200 frames."""
    orig = lab.step

    def step():
        try:
            sys._getframe(limit)
        except ValueError:
            return orig()
        raise BudgetExceeded()

    lab.step = step


def guard_all(lab):
    guard_spin(lab)
    guard_depth(lab)


class HProbe(Probe):
    """Probe that calls `on_term()` once, right after recording its terminal notification."""

    on_term = None

    def _rec(self, kind, payload):
        super()._rec(kind, payload)
        if kind in ("E", "C") and self.on_term is not None:
            f, self.on_term = self.on_term, None
            f()
