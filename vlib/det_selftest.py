"""Self-test scenarios for Engine DET (vlib/det.py).  Each scenario returns None or raises HarnessError.
They double as usage examples for builders of C30-C34/C43: timers and event loops on the fake clock,
deadlock reports, budgets, thread pools, free (single-thread) mode, opcode granularity.
Run all:  PYTHONPATH=/verif:/repo /venv/bin/python -m vlib.det_selftest
"""
from __future__ import annotations

import sys
import threading

from vlib import det
from vlib.core import HarnessError


def _secs(dt):
    return (dt - det.EPOCH).total_seconds()


def _expect(cond, what):
    if not cond:
        raise HarnessError(f"det selftest: {what}")


def deadlock():
    a, b = det.CLock(), det.CLock()

    def t0():
        with a:
            det.yield_point("x")
            with b:
                pass

    def t1():
        with b:
            det.yield_point("y")
            with a:
                pass

    r = det.run_program([t0, t1])
    _expect(r.deadlock is None and r.complete, f"unpreempted lock-order program must finish: {r.describe()}")
    hits = [s for s, res, _ in det.explore(lambda: ([t0, t1], None), K=1) if res.deadlock]
    _expect(hits, "lock-order inversion deadlock not found with one preemption")
    r = det.run_program([t0, t1], hits[0])
    _expect(set(r.deadlock["blocked"]) == {0, 1} and "held by T1" in r.deadlock["blocked"][0], f"blocked-on graph: {r.deadlock}")
    r = det.run_program([lambda: det.CEvent().wait()])
    _expect(r.deadlock and 0 in r.deadlock["blocked"], "a program thread blocked forever must be reported as deadlock")


def timers():
    from reactivex.scheduler import TimeoutScheduler

    out = []

    def prog():
        s = TimeoutScheduler()
        s.schedule_relative(5.0, lambda sc, st: out.append(("five", _secs(sc.now), det.current_tid())))
        s.schedule_relative(1.0, lambda sc, st: out.append(("one", _secs(sc.now), det.current_tid())))
        d = s.schedule_relative(3.0, lambda sc, st: out.append(("cancelled", _secs(sc.now), det.current_tid())))
        s.schedule(lambda sc, st: out.append(("zero", _secs(sc.now), det.current_tid())))
        d.dispose()

    r = det.run_program([prog])
    _expect([(k, t) for k, t, _ in out] == [("zero", 0.0), ("one", 1.0), ("five", 5.0)], f"timer order/clock: {out}")
    _expect(all(tid not in (None, 0) for _, _, tid in out), "timer callbacks must run on their own logical threads")
    _expect(r.complete and not r.exceptions and r.nthreads == 5, r.describe())


def eventloop():
    from reactivex.scheduler import EventLoopScheduler

    out = []

    def prog():
        s = EventLoopScheduler()
        s.schedule_relative(2.0, lambda sc, st: out.append(("two", _secs(sc.now), det.current_tid())))
        s.schedule(lambda sc, st: out.append(("now", _secs(sc.now), det.current_tid())))
        det.CEvent().wait(10.0)
        out.append(("main", _secs(det.now()), det.current_tid()))
        s.dispose()

    r = det.run_program([prog])
    _expect(out == [("now", 0.0, 1), ("two", 2.0, 1), ("main", 10.0, 0)], f"event loop on the fake clock: {out}")
    _expect(r.complete and not r.leftover, r.describe())
    # an idle loop that is never disposed is quiescence, not deadlock
    out.clear()
    r = det.run_program([lambda: EventLoopScheduler().schedule(lambda sc, st: out.append(1))])
    _expect(out == [1] and r.deadlock is None and r.leftover == [1], f"idle daemon loop thread: {r.describe()} leftover={r.leftover}")


def budget_and_exceptions():
    def spin():
        while True:
            det.yield_point("spin")

    r = det.run_program([spin], max_steps=300)
    _expect(r.budget_exceeded and r.steps == 300 and not r.complete, "step budget")

    def boom():
        raise ValueError("x")

    r = det.run_program([boom, lambda: 3])
    _expect(isinstance(r.exceptions.get(0), ValueError) and r.returns == {1: 3}, f"exceptions/returns: {r.exceptions} {r.returns}")


def periodic_and_pool():
    from reactivex.scheduler import NewThreadScheduler, ThreadPoolScheduler

    out = []

    def prog():
        d = NewThreadScheduler().schedule_periodic(1.0, lambda st: out.append(_secs(det.now())))
        det.CEvent().wait(3.5)
        d.dispose()

    r = det.run_program([prog])
    _expect(out == [1.0, 2.0, 3.0] and r.complete, f"periodic: {out} {r.describe()}")
    out.clear()

    def pool():
        s = ThreadPoolScheduler(2)
        for i in range(3):
            s.schedule(lambda sc, st, i=i: out.append(i))

    r = det.run_program([pool])
    _expect(sorted(out) == [0, 1, 2] and r.complete and not r.exceptions, f"thread pool: {out} {r.describe()}")


def current_thread_and_free_mode():
    from reactivex.scheduler import CurrentThreadScheduler

    out = []

    def prog(tag):
        def f():
            CurrentThreadScheduler().schedule_relative(2.0, lambda sc, st: out.append((tag, _secs(sc.now))))

        return f

    r = det.run_program([prog("a"), prog("b")])
    _expect(sorted(out) == [("a", 2.0), ("b", 2.0)] and r.complete, f"trampoline waits on the fake clock: {out}")
    c0 = det.now()
    CurrentThreadScheduler().schedule_relative(2.0, lambda sc, st: out.append(("free", _secs(sc.now) - _secs(c0))))
    _expect(out[-1] == ("free", 2.0), f"free mode wait(timeout) must advance the fake clock: {out[-1]}")
    try:
        det.CEvent().wait()
    except det.DeadlockError:
        pass
    else:
        raise HarnessError("free mode: wait() without timeout must raise DeadlockError")


def granularity_and_determinism():
    from reactivex.disposable import Disposable, SingleAssignmentDisposable

    prog = [lambda: Disposable().dispose()]
    n1 = det.run_program(prog).steps
    n2 = det.run_program(prog, opcodes=["Disposable.dispose"]).steps
    n3 = det.run_program(prog, opcodes=True).steps
    n4 = det.run_program(prog, prim_yields=True).steps
    n5 = det.run_program(prog, trace=False).steps
    _expect(n1 < n2 < n3 and n4 == n1 + 2 and n5 == 3, f"step counts line/opcode-one/opcode-all/prim/no-trace = {n1},{n2},{n3},{n4},{n5}")
    _expect(det.run_program(prog).steps == n1, "opcode tracing leaked into a later run")

    def factory():
        d = SingleAssignmentDisposable()
        return [lambda: setattr(d, "disposable", Disposable()), d.dispose], d

    base = det.run_program(factory()[0])
    for sched in det.k1_schedules(base)[:12]:
        det.run_checked(factory, sched)
        det.run_checked(factory, sched, reuse_threads=True)
    _expect(not det.audit_object(factory()[1]), "objects built while patched must not carry real locks")


def cleanup():
    """nothing survives a run: no extra OS threads (except pooled idle workers), no trace functions"""
    before = threading.active_count()
    from reactivex.scheduler import EventLoopScheduler

    det.run_program([lambda: EventLoopScheduler().schedule(lambda sc, st: None), lambda: det.CEvent().wait()])
    _expect(threading.active_count() == before, f"threads leaked: {threading.enumerate()}")
    _expect(sys.gettrace() is None and threading.gettrace() is None, "trace function left installed")


def import_time_primitives():
    """real primitives inside class-/module-level reactivex objects created at import are swapped in place and
    restored; a real primitive that a controlled thread blocks on is reported fast instead of hanging"""
    import threading as real

    from reactivex.disposable import Disposable, SerialDisposable
    from reactivex.scheduler import trampoline as tmod

    det.unpatch_modules()  # build "import-time" objects with the real names
    try:
        tramp = tmod.Trampoline()
        _expect(type(tramp._lock) is type(real.Lock()), "expected a real lock outside patched()")
        tmod.Trampoline._selftest_shared = tramp  # class-level instance holding Lock + Condition(Lock)
        tmod._selftest_holder = [tramp]  # module-level container is not a reactivex instance: left alone
        stale = SerialDisposable()  # an object under test built before patching
        real_lock, real_cond = tramp._lock, tramp._condition
        det._scan_cache = None
        with det.patched() as env:
            _expect(not det.audit_object(tramp), f"import-time object still has real primitives: {det.audit_object(tramp)}")
            _expect(tramp._condition._lock is tramp._lock, "a swapped Condition must share the stand-in of its lock")
            _expect(any("_selftest_shared" in p for p in env.report["inside"]), f"report: {env.report['inside']}")
            out = []

            def user(tag):
                def f():
                    from reactivex.scheduler.scheduleditem import ScheduledItem
                    from reactivex.scheduler import CurrentThreadScheduler

                    s = CurrentThreadScheduler()
                    tramp.run(ScheduledItem(s, None, lambda sc, st: out.append(tag) or Disposable(), s.now + s.to_timedelta(1.0)))

                return f

            for sched, res, _ in det.explore(lambda: (out.clear() or [user("a"), user("b")], None), K=1, max_steps=3000):
                _expect(res.complete and sorted(out) == ["a", "b"], f"shared import-time trampoline: {out} {res.describe()}")
            # a stale object: fast, explicit failure
            try:
                det.audit(stale)
            except HarnessError as e:
                _expect("real threading primitives" in str(e), str(e))
            else:
                raise HarnessError("det.audit() accepted an object built before patching")

            def holder():
                with stale.lock:
                    det.yield_point("holding")
                    det.yield_point("holding")

            def taker():
                stale.dispose()

            import time

            t0 = time.monotonic()
            try:
                det.run_program([holder, taker], [[2, 1]], stall_timeout=1.0)
            except HarnessError as e:
                _expect("REAL threading primitives" in str(e) and "lock" in str(e), f"stall diagnosis: {e}")
                _expect(time.monotonic() - t0 < 10, "stall detection too slow")
            else:
                raise HarnessError("a controlled thread blocked on a real lock went unnoticed")
            try:
                det.run_program([holder, taker], audit=True)
            except HarnessError as e:
                _expect("real threading primitives" in str(e), str(e))
            else:
                raise HarnessError("audit=True accepted thread callables that reach real primitives")
        _expect(tramp._lock is real_lock and tramp._condition is real_cond, "in-place swaps must be undone by unpatch")
    finally:
        for o, n in ((tmod.Trampoline, "_selftest_shared"), (tmod, "_selftest_holder")):
            if hasattr(o, n):
                delattr(o, n)
        det._scan_cache = None
        det.patch_modules()  # run() unpatches


def lazy_imports_and_thread_state():
    import gc

    import reactivex
    from reactivex import operators as ops
    from reactivex.scheduler import CurrentThreadScheduler

    lazy = [n for n in ("reactivex.operators._timeout", "reactivex.operators._delay", "reactivex.observable.interval", "reactivex.observable.timer") if n in sys.modules]
    _expect(len(lazy) == 4, f"patch_modules must import lazily imported submodules up front: {lazy}")
    import reactivex.observable.combinelatest as cl

    _expect(cl.RLock is det.CRLock, "a lazily imported module must see the cooperative names")
    seen = []

    def factory():
        def prog():
            seen.append(gc.isenabled())
            s = CurrentThreadScheduler.singleton()
            s.schedule(lambda sc, st: det.log("ran", object()))  # payload repr carries an address
            reactivex.of(1, 2).pipe(ops.map(lambda x: x + 1)).subscribe(lambda v: det.log("v", v))

        return [prog, prog], None

    gc_before = gc.isenabled()
    for _ in range(3):  # pooled OS threads: the singleton/trampoline of an earlier run must not be reused
        det.run_checked(factory, [[5, 1]], reuse_threads=True)
    _expect(not any(seen), "cyclic GC must be off during a run")
    _expect(gc.isenabled() == gc_before, "GC state must be restored")
    c = det.clock_us()
    det.set_clock_us(c + 5)
    _expect(det.clock_us() == c + 5 and not det.aborting(), "clock accessors / aborting()")


def drawn_descent():
    from reactivex.disposable import SingleAssignmentDisposable, Disposable

    def factory():
        d = SingleAssignmentDisposable()
        return [lambda: setattr(d, "disposable", Disposable()), d.dispose], d

    full = [s for s, _, _ in det.explore(factory, K=1, reuse_threads=True)]
    parts = [s for i in range(3) for s, _, _ in det.explore(factory, K=1, slice_=(i, 3), reuse_threads=True) if s]
    _expect(sorted(parts) == sorted(s for s in full if s), "slices of the first level must partition it")
    runs = list(det.walk(factory, [7, 3], reuse_threads=True))
    _expect(len(runs) == 3 and [len(s) for s, _, _ in runs] == [0, 1, 2], f"walk: {[s for s, _, _ in runs]}")
    for (s, r, _), (s2, r2, _) in zip(runs, runs[1:]):
        _expect(r.owners != r2.owners, "every drawn preemption of walk() must be effective")
    base = runs[0][1]
    eff = det.resolve_schedule([[11, 1], [40, 0]], base, effective=True)
    _expect(eff and all(e in det.next_preemptions(base) for e in eff), f"effective resolution: {eff}")


SCENARIOS = {
    f.__name__: f
    for f in (deadlock, timers, eventloop, budget_and_exceptions, periodic_and_pool, current_thread_and_free_mode, granularity_and_determinism, cleanup,
              import_time_primitives, lazy_imports_and_thread_state, drawn_descent)
}


def run(name):
    import logging

    lg = logging.getLogger("Rx")
    lvl = lg.level
    lg.setLevel(logging.ERROR)  # the trampoline warns "Do not schedule blocking work!" on timed waits
    try:
        with det.patched():
            SCENARIOS[name]()
    finally:
        lg.setLevel(lvl)


if __name__ == "__main__":
    for n in SCENARIOS:
        run(n)
        print("ok", n)
