"""Engine HIST helper for the virtual-time scheduler properties (C28, C29, C35 virtual half, C42).

Owned by props/C28.py, C29.py, C35.py, C42.py.  Contains
  * native time encoding for the three virtual-time schedulers (model time is an *integer number of units*;
    the unit is 1 s = 1 tick on TestScheduler and 1 ms on VirtualTimeScheduler / HistoricalScheduler),
  * `VTModel`: the explicit reference model - a priority list ordered by (due, insertion seq) with a clock,
    written without any library code,
  * `guarded()`: run a call in a daemon thread joined with a wall-clock watchdog (C29: a regression is a hang).

The real schedulers are used directly (VirtualTimeScheduler / TestScheduler / HistoricalScheduler), never through
vlib.lab's counting subclasses.
"""
from __future__ import annotations

import heapq
import threading
from datetime import datetime, timedelta, timezone

EPOCH = datetime(1970, 1, 1, tzinfo=timezone.utc)  # own constant (== reactivex UTC_ZERO)

KINDS = ("vts", "test", "hist", "vtsus", "histus")
# microseconds per model unit; the *us kinds are the same schedulers driven with microsecond-granular arguments (the
# finest grain datetime/timedelta represent exactly; float seconds round-trip exactly at that grain for |t| < ~1e9 s)
UNIT_US = {"vts": 1000, "test": 1_000_000, "hist": 1000, "vtsus": 1, "histus": 1}
TEST_INTERNALS = (100, 200, 1000)  # TestScheduler.start() schedules its create/subscribe/dispose actions here


def make(kind, init=0):
    """Build the real scheduler with its clock at `init` units."""
    from reactivex.scheduler import HistoricalScheduler, VirtualTimeScheduler
    from reactivex.testing import TestScheduler

    if kind in ("vts", "vtsus"):
        return VirtualTimeScheduler(0) if init == 0 else VirtualTimeScheduler(init * UNIT_US[kind] / 1e6)
    if kind == "test":
        if init != 0:
            raise ValueError("TestScheduler always starts at 0")
        return TestScheduler()
    if kind in ("hist", "histus"):
        return HistoricalScheduler() if init == 0 else HistoricalScheduler(EPOCH + timedelta(microseconds=init * UNIT_US[kind]))
    raise ValueError(kind)


def _seconds(kind, u, form):
    us = u * UNIT_US[kind]
    if form == "int" and us % 1_000_000 == 0:
        return int(us // 1_000_000)
    return us / 1e6


def enc_abs(kind, u, form):
    """Absolute time argument for `u` units: form 'num' (float seconds), 'int' (int seconds when integral), 'dt'."""
    if form == "dt":
        return EPOCH + timedelta(microseconds=u * UNIT_US[kind])
    return _seconds(kind, u, form)


def enc_rel(kind, u, form):
    """Relative time argument for `u` units: form 'num', 'int', 'td'."""
    if form == "td":
        return timedelta(microseconds=u * UNIT_US[kind])
    return _seconds(kind, u, form)


def dec(kind, value):
    """Native absolute clock value (number of seconds or datetime) -> units (int when exact, else float)."""
    if isinstance(value, datetime):
        us = (value - EPOCH) / timedelta(microseconds=1)
    else:
        us = value * 1e6
    r = round(us)
    if abs(us - r) < 1e-3:
        us = r
    unit = UNIT_US[kind]
    if isinstance(us, int) and us % unit == 0:
        return us // unit
    return us / unit


def clock_of(kind, sched):
    return dec(kind, sched.clock)


class Inconclusive(BaseException):
    """Model-side spin guard: >= limit dequeues at one clock value (the MAX_SPINNING path is C29's business)."""


class Entry:
    __slots__ = ("due", "seq", "payload", "cancelled", "done", "internal", "owned")

    def __init__(self, due, seq, payload, internal=False):
        self.due, self.seq, self.payload = due, seq, payload
        self.cancelled = False
        self.done = False
        self.internal = internal
        self.owned = None  # entry whose handle this entry's handle owns (the action returned it)


class VTModel:
    """Reference virtual-time scheduler: priority list ordered by (due, insertion seq) and a clock.

    `run(entry)` is called for every dequeued entry that is neither cancelled nor internal; it may call
    schedule_* / stop / Entry.cancelled = True re-entrantly.
    Semantics taken from the property text; where the text is silent the documented behaviour is used:
      - a due time in the past runs at the current clock (clock at invocation = max(due, clock)),
      - advance_to(now) / advance_by(0) is a no-op (tests/test_scheduler/test_historicalscheduler.py asserts it),
      - advance_* / sleep to an earlier time raise ArgumentOutOfRangeException and change nothing,
      - stop() from inside an action ends the current run after that action; a stopped advance_* still leaves the
        clock at its target,
      - TestScheduler.start() first schedules three harness actions at 100/200/1000.
    A dequeued *cancelled* entry still moves the real clock to its due time; the property does not speak about
    that, so `clock_lo` (cancelled entries ignored) .. `clock` (followed) are both acceptable after start().
    """

    def __init__(self, kind, init=0, spin_limit=None):
        self.kind = kind
        self.clock = init
        self.clock_lo = init
        self.heap = []
        self.seq = 0
        self.enabled = False
        self.spin_limit = spin_limit
        self.max_same_instant = 0
        self.max_not_advancing = 0

    # -- scheduling
    def schedule_absolute(self, due, payload, internal=False):
        e = Entry(due, self.seq, payload, internal)
        self.seq += 1
        heapq.heappush(self.heap, (due, e.seq, e))
        return e

    def schedule(self, payload):
        return self.schedule_absolute(self.clock, payload)

    def schedule_relative(self, d, payload):
        return self.schedule_absolute(self.clock + d, payload)

    def pending(self):
        return [t[2] for t in sorted(self.heap, key=lambda t: (t[0], t[1])) if not t[2].cancelled]

    # -- running
    def _invoke(self, e, run):
        e.done = True
        if e.cancelled or e.internal:
            return
        run(e)

    def start(self, run):
        if self.enabled:
            return
        if self.kind == "test":
            for t in TEST_INTERNALS:
                self.schedule_absolute(t, None, internal=True)
        self.enabled = True
        self.clock_lo = self.clock
        same = 0
        not_advancing = 0
        while self.enabled and self.heap:
            due, _, e = heapq.heappop(self.heap)
            if due > self.clock:
                self.clock = due
                same = 0
            else:
                not_advancing += 1  # statistics only: dequeues in this run that tied with / lay before the clock
                self.max_not_advancing = max(self.max_not_advancing, not_advancing)
            same += 1
            self.max_same_instant = max(self.max_same_instant, same)
            if self.spin_limit is not None and same >= self.spin_limit:
                raise Inconclusive("spin")
            if not e.cancelled:
                self.clock_lo = self.clock
            self._invoke(e, run)
        self.enabled = False

    def advance_to(self, target, run):
        """Returns 'range' (must raise), 'noop' or 'ran'."""
        if self.clock > target:
            return "range"
        if self.clock == target or self.enabled:
            return "noop"
        self.enabled = True
        same = 0
        while self.enabled and self.heap:
            due, _, e = self.heap[0]
            if due > target:
                break
            heapq.heappop(self.heap)
            if due > self.clock:
                self.clock = due
                same = 0
            same += 1
            self.max_same_instant = max(self.max_same_instant, same)
            self._invoke(e, run)
        self.enabled = False
        self.clock = target
        self.clock_lo = target
        return "ran"

    def sleep(self, d):
        if d < 0:
            return "range"
        self.clock += d
        self.clock_lo = self.clock
        return "ok"

    def stop(self):
        self.enabled = False


# ---------------------------------------------------------------------------------------------------------------
# Watchdog

WATCHDOG_S = 10.0
_AFTER_HANG_S = 0.5
_hang_seen = [False]


class _Worker:
    """A long-lived daemon thread executing one call at a time (creating a thread per call costs ~8 ms in the sandbox)."""

    def __init__(self):
        self.req = threading.Semaphore(0)
        self.done = threading.Semaphore(0)
        self.fn = None
        self.box = None
        self.abandoned = False
        self.th = threading.Thread(target=self._loop, daemon=True, name="vt-guarded")
        self.th.start()

    def _loop(self):
        while True:
            self.req.acquire()
            fn, box = self.fn, self.box
            try:
                box["r"] = fn()
            except BaseException as e:  # noqa: B036 - transported to the caller thread
                box["e"] = e
            if self.abandoned:
                return
            self.done.release()


_worker = [None]


def guarded(fn):
    """Run fn() in a daemon thread and wait for it with a wall-clock watchdog.

    Returns ("ok", result) | ("exc", exception) | ("hang", None).  The work is microseconds to milliseconds; the
    watchdog only converts a hang into a verdict.  A wedged worker is abandoned (a fresh one serves the next call);
    it is a daemon thread (runner shards end with os._exit, the main process with sys.exit: neither waits for daemon
    threads).  After the first hang seen in this process the budget drops to 0.5 s so that shrinking a hanging case
    stays affordable.
    """
    w = _worker[0]
    if w is None:
        w = _worker[0] = _Worker()
    box = {}
    w.fn, w.box = fn, box
    w.req.release()
    if not w.done.acquire(timeout=_AFTER_HANG_S if _hang_seen[0] else WATCHDOG_S):
        w.abandoned = True
        _worker[0] = None
        _hang_seen[0] = True
        return "hang", None
    if "e" in box:
        return "exc", box["e"]
    return "ok", box.get("r")


# ---------------------------------------------------------------------------------------------------------------
# Library exceptions escaping a scheduler call

_VERIF_DIR = __file__.rsplit("/vlib/", 1)[0] + "/"


def escaped(exc, culprit, detail, classes=()):
    """FAIL result for an exception that escaped a library call (innermost frame outside /verif); an exception whose
    innermost frame is harness code is re-raised (harness bug -> exit 2)."""
    import os
    import traceback

    from .core import FAIL

    tb = traceback.extract_tb(exc.__traceback__)
    fr = tb[-1] if tb else None
    if fr is None or os.path.abspath(fr.filename).startswith(_VERIF_DIR):
        raise exc
    where = "/".join(fr.filename.split("/")[-2:]) + ":" + fr.name
    return FAIL(
        f"escaped:{type(exc).__name__}@{where}|{culprit}",
        f"{type(exc).__name__}: {exc} escaped {culprit}; {detail} :: " + "".join(traceback.format_exception(exc))[-900:],
        classes=classes,
    )


# ---------------------------------------------------------------------------------------------------------------
# Injected exceptions of various types (the type of a raised exception must not matter to a scheduler)

class CustomError(Exception):
    """A user-defined Exception subclass."""


class FalsyError(Exception):
    """An exception object that is falsy (`if ex:` is False)."""

    def __len__(self):
        return 0


EXC_TYPES = ("tagged", "type", "value", "key", "attr", "stopiter", "custom", "falsy")


def make_exc(kind, tag):
    """Fresh exception instance of the named type carrying `.tag` (its stable identity in logs)."""
    from .values import Tagged

    cls = {
        "tagged": Tagged,
        "type": TypeError,
        "value": ValueError,
        "key": KeyError,
        "attr": AttributeError,
        "stopiter": StopIteration,
        "custom": CustomError,
        "falsy": FalsyError,
    }[kind]
    ex = cls(tag)
    ex.tag = tag
    return ex
