"""Engine DET -- deterministic thread / clock harness for the RxPY verification framework.

USAGE (read this, then the docstrings of `patched`, `run_program`, `RunResult`)
------------------------------------------------------------------------------
    from vlib import det

    def factory():                       # builds FRESH objects and returns the logical threads
        d = SingleAssignmentDisposable() # created while patched -> its RLock is cooperative
        item = CountingItem()
        return [lambda: setattr(d, "disposable", item),      # logical thread 0
                lambda: d.dispose()], {"d": d, "item": item}  # logical thread 1, + anything you want back

    with det.patched():                  # swaps Lock/RLock/Event/Condition/Thread/Timer/Future/
                                         # ThreadPoolExecutor/default_now inside all reactivex.* modules
        threads, ctx = factory()
        base = det.run_program(threads)              # unpreempted run: thread 0 runs until it blocks/ends, ...
        for sched in det.k1_schedules(base):         # all single-preemption schedules  [[step, tid]]
            threads, ctx = factory()
            res = det.run_program(threads, sched)    # RunResult
            assert not res.deadlock and not res.exceptions, res.describe()
            ... oracle on ctx ...
        # or:  for sched, res, ctx in det.explore(factory, K=2): ...      (exhaustive, fewest preemptions first)
        # or:  sched = det.resolve_schedule(raw, base)   with raw drawn from det.raw_schedules(K=3)
        # determinism:  det.run_checked(factory, sched)  runs twice and raises HarnessError on divergence

Model.  Every logical thread is a real OS thread gated by a private lock; exactly one runs at a
time.  A run is a sequence of *steps* (segments): step s is executed by `res.owners[s]` from one
yield point to the next.  Before every step the harness decides who runs: by default the thread
that ran the previous step if it is still runnable, else the runnable thread with the lowest tid;
a schedule entry `[s, tid]` overrides the decision for step s when `tid` is runnable at that moment
(otherwise the entry is ignored).  Logical threads passed to `run_program` get tids 0..T-1; threads
the library starts through the patched `Thread`/`Timer`/executor get the next tids in start order.

Yield points: (1) `sys.settrace` 'line' events in frames whose file is under the reactivex package
that is actually imported (`os.path.dirname(reactivex.__file__)`, so VERIF_REPO copies work) or
under a path prefix listed in `extra_trace=`; (2) optionally 'opcode' events for functions named in
`opcodes=` (co_qualname, e.g. "RefCountDisposable.release"; True = all traced frames) -- needed to
split read-modify-write lines such as `self.count -= 1`; (3) every operation
of a cooperative primitive (when `prim_yields="auto"`, the default, the extra yield is skipped if
the caller is a line-traced frame because the line event just before it is the same window);
(4) explicit `det.yield_point(label)` calls, usable from probe callbacks (no-op outside a run).

Cooperative primitives (`CLock, CRLock, CEvent, CCondition, CSemaphore, CThread, CTimer, CFuture,
CThreadPoolExecutor`) never block the OS thread: a thread that cannot proceed is marked blocked
(on that object, with an optional fake-clock deadline) and the baton goes to another runnable
thread.  When nothing is runnable the fake clock jumps to the earliest deadline.  Nothing runnable,
nothing parked, but a *program* (or non-daemon) thread blocked => `res.deadlock` = blocked-on graph.
If only daemon threads started by the library are left blocked (e.g. an idle EventLoopScheduler
loop) the run ends normally and they are listed in `res.leftover`; they are terminated.
Outside a run ("free mode": object construction, single-thread HIST use) the primitives still
work for one thread: an uncontended acquire succeeds, `wait(timeout)` advances the fake clock by
`timeout` and returns False, and anything that would block forever raises `DeadlockError`.

Clock: `det.now()` / patched `default_now` return EPOCH + fake microseconds of the active
`FakeClock` (`patched(clock=...)`, `env.clock.advance(seconds)`).

Robustness: `max_steps` budget (-> `res.budget_exceeded`), `wall_timeout` backstop (HarnessError),
all OS threads are daemon threads and are unwound with a BaseException (`_Abort`) and joined
before `run_program` returns -- a thread that cannot be finished raises HarnessError.  Tracing is
only ever installed in the harness's own threads and removed when they end, so Hypothesis in the
calling thread is unaffected; nothing survives a case, so `os._exit` at shard end is fine.

API summary
    patched(clock=None, extra_modules=()) / patch_modules() / unpatch_modules()   namespace patching; imports
                ALL reactivex submodules first (import_all), swaps real primitives inside class-/module-level
                reactivex objects created at import in place (restored on unpatch)
    run_program(threads, schedule=(), max_steps=, wall_timeout=, opcodes=, prim_yields=, extra_trace=,
                time_limit_s=, names=, trace=, reuse_threads=, fresh_thread_state=, stall_timeout=,
                clock_us=, audit=) -> RunResult
    RunResult: events, steps, owners, labels, choices, deadlock, exceptions, returns, leftover,
               budget_exceeded, horizon_reached, complete, nthreads, clock_us, schedule,
               switches(), overlapped(), describe(), fingerprint() (address-free)
    run_checked(factory, schedule, clock_us=)  run twice on fresh objects, HarnessError unless identical
    next_preemptions(res, after) / k1_schedules(base) / explore(factory, K, slice_=, clock_us=)   exhaustive
    walk(factory, points, clock_us=)           drawn descent, every drawn preemption effective by construction
    raw_schedules(K) (Hypothesis strategy) + resolve_schedule(raw, base, effective=)   drawn schedules
    yield_point(label) / log(*payload) / now() / clock_us() / set_clock_us() / current_tid() / in_run()
    aborting() / Abort                       for probes that loop or catch BaseException
    fresh_thread_state()                     reset reactivex's thread-keyed singletons (automatic per run with
                                             reuse_threads=True)
    audit(*objs) / audit_object(obj)         HarnessError / list of real (uncooperative) primitives reachable
    import_all() / reactivex_dir()
    C* classes                               the cooperative primitives, usable directly in harness code

Robustness against REAL primitives (objects built before patching, or by code det does not patch): a controlled
thread that blocks on one stops the whole run; run_program notices that no step is executed for `stall_timeout`
(5 s) wall-clock seconds and raises HarnessError naming the thread's stack and the real primitives reachable from
the innermost reactivex frame (e.g. `self._lock`), instead of hanging until the shard timeout.  Use
`det.audit(obj)` in a factory (or run_program(audit=True)) for an immediate check.  In free mode (calling thread)
a real timed wait cannot be intercepted: audit the objects you drive there.

Throughput (SingleAssignmentDisposable.set_disposable || dispose, 18 steps per run, one process):
about 2500 schedules/s with reuse_threads=True and about 370/s with fresh OS threads per run on an idle
machine; at load average ~40 these drop to about 1000-2000/s and 50/s (thread start latency dominates).
Use reuse_threads=True unless the code under test keys state on the thread (CurrentThreadScheduler,
threading.local).

CPython 3.12 note: settrace is built on interpreter-wide sys.monitoring events.  Changing that event set
while a thread sits inside traced code can crash the interpreter, so run_program keeps a do-nothing
trace function installed in the calling thread for the duration of a run (restored afterwards).  Once a
process has used `opcodes`, later runs in that process are somewhat slower (CPython keeps per-instruction
instrumentation enabled), but behave the same.

Limits: C-level atomicity as CPython provides it (list.append, dict ops, attribute stores are
single steps; a line is atomic unless listed in `opcodes`); GIL build only; code outside the traced
directories is atomic between primitive operations; `time.sleep`/real I/O are not modelled.
"""
from __future__ import annotations

import _thread
import concurrent.futures as _real_cf
import gc as _gc
import os
import sys
import threading as _real_threading
import types
import weakref
from datetime import datetime, timedelta, timezone

try:  # usable stand-alone as well as inside the framework
    from vlib.core import HarnessError
except Exception:  # pragma: no cover

    class HarnessError(Exception):
        pass


__all__ = [
    "patched", "patch_modules", "unpatch_modules", "run_program", "run_checked", "explore", "k1_schedules",
    "raw_schedules", "resolve_schedule", "yield_point", "log", "now", "current_tid", "in_run", "FakeClock",
    "RunResult", "DeadlockError", "HarnessError", "CLock", "CRLock", "CEvent", "CCondition", "CSemaphore",
    "CThread", "CTimer", "CFuture", "CThreadPoolExecutor", "audit_object", "EPOCH", "clock_us", "set_clock_us",
    "aborting", "Abort", "audit", "import_all", "fresh_thread_state", "walk", "next_preemptions", "reactivex_dir",
]  # fmt: skip

EPOCH = datetime(2001, 1, 1, tzinfo=timezone.utc)

_RealThread = _real_threading.Thread
_real_get_ident = _thread.get_ident
_alloc = _thread.allocate_lock

RUNNABLE, BLOCKED, DONE = "runnable", "blocked", "done"


class DeadlockError(HarnessError):
    """A cooperative primitive would block forever in free (single-thread) mode."""


class _Abort(BaseException):
    """Raised inside controlled threads to unwind them at the end of an aborted run."""


Abort = _Abort  # public name


class FakeClock:
    """Fake UTC clock in integer microseconds since EPOCH."""

    def __init__(self, start_us: int = 0):
        self.us = int(start_us)

    def now(self) -> datetime:
        return EPOCH + timedelta(microseconds=self.us)

    def advance(self, seconds: float) -> None:
        self.us += _us(seconds)

    def seconds(self) -> float:
        return self.us / 1e6


def _us(seconds) -> int:
    if isinstance(seconds, timedelta):
        seconds = seconds.total_seconds()
    return max(0, int(round(float(seconds) * 1e6)))


_clock = FakeClock()  # the active clock (replaced by patched(clock=...))
_H = None  # the active Harness (at most one run at a time)
_tls = _real_threading.local()  # .ct = the _CT of the current controlled OS thread


def now() -> datetime:
    """Fake UTC now (this is what replaces reactivex default_now)."""
    return EPOCH + timedelta(microseconds=_clock.us)


def clock_us() -> int:
    """Fake clock in integer microseconds since EPOCH."""
    return _clock.us


def set_clock_us(us: int) -> None:
    """Set the fake clock (e.g. back to a case's start value before re-running a program)."""
    _clock.us = int(us)


def aborting() -> bool:
    """True while the current run is being unwound (budget, deadlock, end of run): probe code that catches
    BaseException must re-raise `det.Abort`, and loops should stop when this is true."""
    h = _H
    return bool(h is not None and h.aborting)


def in_run() -> bool:
    return _H is not None and getattr(_tls, "ct", None) is not None


def current_tid():
    ct = getattr(_tls, "ct", None)
    return None if ct is None else ct.tid


def yield_point(label: str = "user") -> None:
    """Explicit yield point for probe callbacks; no-op outside a controlled thread."""
    ct = getattr(_tls, "ct", None)
    if ct is not None and _H is not None:
        _H.do_yield(ct, label)


def log(*payload) -> None:
    """Append (step, tid, payload) to the run's event log; no-op outside a run."""
    h = _H
    if h is not None:
        ct = getattr(_tls, "ct", None)
        h.events.append((h.step, None if ct is None else ct.tid, payload if len(payload) != 1 else payload[0]))


# ---------------------------------------------------------------------------------------------
# logical threads and the harness
# ---------------------------------------------------------------------------------------------
class _CT:
    """One logical (controlled) thread."""

    __slots__ = ("tid", "fn", "gate", "state", "blocked_on", "deadline", "timed_out", "os_thread", "daemon",
                 "program", "name", "started", "aborted", "owner", "h", "__weakref__")  # fmt: skip

    def __init__(self, h, tid, fn, name, daemon, program, owner=None):
        self.h, self.tid, self.fn, self.name = h, tid, fn, name
        self.gate = _alloc()
        self.gate.acquire()
        self.state = RUNNABLE
        self.blocked_on = None
        self.deadline = None
        self.timed_out = False
        self.daemon, self.program = daemon, program
        self.started = False
        self.aborted = False
        self.owner = owner  # the CThread object, if any
        self.os_thread = None


_ADDR = __import__("re").compile(r"0x[0-9a-fA-F]{4,}")


def _scrub(text):
    return _ADDR.sub("0x?", text)


class RunResult:
    """Outcome of one controlled run.

    events   [(step, tid, payload)] appended through det.log()
    steps    number of steps executed; owners[s] = tid that ran step s; labels[s] = where it resumed from
    choices  choices[s] = tuple of tids that were runnable when step s was decided
    deadlock None or {"blocked": {tid: description of what it waits for and who holds it}}
    exceptions {tid: exception} that escaped a thread body; returns {tid: value} for program threads
    leftover tids of library-started daemon threads still blocked at quiescence (terminated)
    budget_exceeded / horizon_reached: run cut by max_steps / time_limit_s (inconclusive, not a verdict)
    """

    def __init__(self):
        self.events = []
        self.steps = 0
        self.owners = []
        self.labels = []
        self.choices = []
        self.deadlock = None
        self.exceptions = {}
        self.returns = {}
        self.leftover = []
        self.budget_exceeded = False
        self.horizon_reached = False
        self.nthreads = 0
        self.names = {}
        self.clock_us = 0
        self.schedule = []

    @property
    def complete(self) -> bool:
        return not (self.deadlock or self.budget_exceeded or self.horizon_reached)

    def fingerprint(self):
        """Everything that must be equal when a (program, schedule) pair is run again; object addresses
        (`0x7f...` in reprs of payloads, exceptions) are masked."""
        return (tuple(self.owners), tuple(self.labels), _scrub(repr(self.events)), _scrub(repr(self.deadlock)),
                tuple(sorted((k, type(v).__name__, _scrub(str(v))) for k, v in self.exceptions.items())),
                self.clock_us, self.budget_exceeded)  # fmt: skip

    def switches(self):
        """[(step, from_tid, to_tid)] for every change of running thread."""
        o = self.owners
        return [(i, o[i - 1], o[i]) for i in range(1, len(o)) if o[i] != o[i - 1]]

    def overlapped(self) -> bool:
        """True if some thread ran, then another, then the first again (call intervals overlapped)."""
        last = None
        runs = []
        for t in self.owners:
            if t != last:
                runs.append(t)
                last = t
        return any(runs[i] in runs[i + 2:] for i in range(len(runs)))

    def describe(self, around=None) -> str:
        parts = [f"schedule={self.schedule} steps={self.steps}"]
        if self.deadlock:
            parts.append(f"DEADLOCK {self.deadlock}")
        if self.exceptions:
            parts.append("exceptions=" + repr({k: repr(v) for k, v in self.exceptions.items()}))
        if self.budget_exceeded:
            parts.append("step budget exceeded")
        sw = [f"@{s}:{a}->{b} at {self.labels[s]}" for s, a, b in self.switches()]
        parts.append("switches: " + "; ".join(sw[:12]))
        return " | ".join(parts)


_pool = []  # idle reusable workers (only used by runs with reuse_threads=True)


class _Worker:
    """An OS thread that executes logical threads.  One-shot by default; with reuse_threads=True it goes
    back to `_pool` after its logical thread ended (thread identity / thread-locals then persist
    across runs, so only use that for code that does not look at them)."""

    def __init__(self):
        self.job = None
        self.job_gate = _alloc()
        self.job_gate.acquire()
        self.idle = _alloc()  # held while a job is in progress
        self.thread = _RealThread(target=self._loop, name="det-worker", daemon=True)
        self.started = False

    def submit(self, h, ct, reuse):
        self.job = (h, ct, reuse)
        self.idle.acquire()
        self.job_gate.release()
        if not self.started:
            self.started = True
            self.thread.start()

    @property
    def ident(self):
        return self.thread.ident

    def _loop(self):
        while True:
            self.job_gate.acquire()
            h, ct, reuse = self.job
            self.job = None
            try:
                h._bootstrap(ct)
            finally:
                self.idle.release()
            if not reuse:
                return

    def wait_done(self, timeout):
        """True if the current job ended (and, for one-shot workers, the OS thread exited)."""
        if not self.idle.acquire(timeout=timeout):
            return False
        self.idle.release()
        return True


class _Harness:
    def __init__(self, schedule, max_steps, opcodes, trace_prefixes, prim_yields, time_limit_us, reuse=False):
        self.reuse = reuse
        self.threads = []
        self.sched = {}
        for s, t in schedule:
            self.sched[int(s)] = int(t)
        self.max_steps = max_steps
        self.step = 0
        self.events = []
        self.owners = []
        self.labels = []
        self.choices = []
        self.cur = None
        self.aborting = False
        self.abort_reason = None
        self.deadlock = None
        self.budget_exceeded = False
        self.horizon_reached = False
        self.exceptions = {}
        self.returns = {}
        self.leftover = []
        self.done_lock = _alloc()
        self.done_lock.acquire()
        self.finished = False
        self.opcodes = frozenset(()) if (opcodes is True or not opcodes) else frozenset(opcodes)
        self.all_opcodes = opcodes is True
        self.prefixes = tuple(trace_prefixes)
        self.prim_yields = prim_yields
        self.time_limit_us = time_limit_us
        self._code_cache = {}
        self._resume_label = {}
        self.obj_names = []

    # ---- thread creation -------------------------------------------------------------------
    def new_thread(self, fn, name, daemon, program, owner=None):
        ct = _CT(self, len(self.threads), fn, name, daemon, program, owner)
        self.threads.append(ct)
        w = _pool.pop() if (self.reuse and _pool) else _Worker()
        ct.os_thread = w
        w.submit(self, ct, self.reuse)
        return ct

    def _bootstrap(self, ct):
        ct.gate.acquire()  # wait for the first baton
        _tls.ct = ct
        try:
            if self.aborting:
                return
            ct.started = True
            sys.settrace(self._make_global_trace(ct))
            try:
                r = ct.fn()
                if ct.program:
                    self.returns[ct.tid] = r
            finally:
                sys.settrace(None)
        except _Abort:
            pass
        except BaseException as e:  # noqa: BLE001 - recorded, never lost
            if not self.aborting:
                self.exceptions[ct.tid] = e
        finally:
            _tls.ct = None
            self._thread_done(ct)

    def _thread_done(self, ct):
        ct.state = DONE
        ct.blocked_on = None
        if self.aborting:
            return  # the controller is unwinding threads one by one and joins us
        self._wake_blocked_on(ct)  # joiners
        nxt = self._decide(None, "end")
        if nxt is not None:
            nxt.gate.release()

    # ---- tracing ---------------------------------------------------------------------------
    def _make_global_trace(self, ct):
        cache = self._code_cache
        prefixes = self.prefixes
        opnames = self.opcodes
        all_op = self.all_opcodes
        do_yield = self.do_yield

        def local_trace(frame, event, arg):
            if event == "line" or event == "opcode":
                do_yield(ct, frame)
            return local_trace

        def global_trace(frame, event, arg):
            code = frame.f_code
            v = cache.get(code)
            if v is None:
                fn = code.co_filename
                v = 1 if fn.startswith(prefixes) else 0
                if v and (all_op or code.co_qualname in opnames):
                    v = 2
                cache[code] = v
            if v == 0:
                return None
            if v == 2:
                frame.f_trace_opcodes = True
            return local_trace

        return global_trace

    # ---- scheduling core -------------------------------------------------------------------
    def do_yield(self, ct, where):
        """End of ct's current step; ct stays runnable.  Returns when ct is scheduled again."""
        if self.aborting:
            if not ct.aborted:
                ct.aborted = True
                raise _Abort()
            return
        nxt = self._decide(ct, where)
        if nxt is not ct:
            self._handoff(ct, nxt)

    def _label(self, where):
        if type(where) is str:
            return where
        code = where.f_code
        return f"{os.path.basename(code.co_filename)}:{where.f_lineno}:{code.co_name}"

    def _decide(self, cur, where):
        """Pick the thread for the next step (None => run is over).  `cur` is the calling thread if it
        is still runnable, else None."""
        s = self.step
        if s >= self.max_steps:
            self.budget_exceeded = True
            return self._stop(cur)
        runnable = [t for t in self.threads if t.state == RUNNABLE]
        while not runnable:
            parked = [t for t in self.threads if t.state == BLOCKED and t.deadline is not None]
            if not parked:
                return self._quiesce(cur)
            d = min(t.deadline for t in parked)
            if self.time_limit_us is not None and d > self.time_limit_us:
                self.horizon_reached = True
                return self._stop(cur)
            if d > _clock.us:
                _clock.us = d
            for t in parked:
                if t.deadline <= _clock.us:
                    t.state = RUNNABLE
                    t.timed_out = True
                    runnable.append(t)
        want = self.sched.get(s)
        nxt = None
        if want is not None and want < len(self.threads) and self.threads[want].state == RUNNABLE:
            nxt = self.threads[want]
        elif cur is not None:
            nxt = cur
        else:
            nxt = runnable[0]
        self.step = s + 1
        self.owners.append(nxt.tid)
        self.choices.append(tuple(t.tid for t in runnable))
        # label of the step = the point the chosen thread resumes from
        if nxt is cur:
            self.labels.append(self._label(where))
        else:
            if cur is not None:
                cur_label = self._label(where)
                self._resume_label[cur.tid] = cur_label
            self.labels.append(self._resume_label.pop(nxt.tid, "start"))
        self.cur = nxt
        return nxt

    def _handoff(self, ct, nxt):
        if nxt is not None:
            nxt.gate.release()
        ct.gate.acquire()
        if self.aborting and not ct.aborted:
            ct.aborted = True
            raise _Abort()

    def block(self, ct, on, deadline_us=None, label="block"):
        """ct cannot proceed: park it on `on` (optionally until fake deadline).  Returns True if it
        was woken by the deadline rather than by a wake()."""
        if self.aborting:
            if not ct.aborted:
                ct.aborted = True
                raise _Abort()
            return True
        ct.state = BLOCKED
        ct.blocked_on = on
        ct.deadline = deadline_us
        ct.timed_out = False
        self._resume_label[ct.tid] = label
        nxt = self._decide(None, label)
        if nxt is not ct:
            self._handoff(ct, nxt)
        ct.blocked_on = None
        ct.deadline = None
        return ct.timed_out

    def wake(self, ct):
        if ct.state == BLOCKED:
            ct.state = RUNNABLE
            ct.timed_out = False

    def _wake_blocked_on(self, obj):
        for t in self.threads:
            if t.state == BLOCKED and t.blocked_on is obj:
                t.state = RUNNABLE
                t.timed_out = False

    def _quiesce(self, cur):
        """Nothing runnable, nothing parked."""
        blocked = [t for t in self.threads if t.state == BLOCKED]
        serious = [t for t in blocked if t.program or not t.daemon]
        if serious:
            self.deadlock = {"blocked": {t.tid: _describe_wait(t) for t in blocked}}
        else:
            self.leftover = [t.tid for t in blocked]
        return self._stop(cur)

    def _stop(self, cur):
        """End the run: wake the controller; the calling thread (if any) parks until unwound."""
        self.aborting = True
        self.finished = True
        self.done_lock.release()
        me = getattr(_tls, "ct", None)
        if me is not None and me.state != DONE:
            me.gate.acquire()
            if not me.aborted:
                me.aborted = True
                raise _Abort()
        return None

    def prim_yield(self, ct, label, caller):
        """Yield point of a cooperative primitive operation."""
        py = self.prim_yields
        if py is False:
            return
        if py == "auto" and caller is not None and caller.f_trace is not None:
            return
        self.do_yield(ct, label)


def _tag(obj, kind):
    """Run-stable name of a primitive: `Lock#3` = the 4th primitive mentioned in this run (no addresses)."""
    h = _H
    if h is None:
        return kind
    if getattr(obj, "_name_run", None) is not h:
        try:
            obj._name_run = h
            obj._serial = len(h.obj_names)
            h.obj_names.append(obj)
        except AttributeError:
            return kind
    return f"{kind}#{obj._serial}"


def _describe_wait(t):
    on = t.blocked_on
    d = getattr(on, "_describe", None)
    return f"{t.name} waits for {d() if d else repr(on)}"


def _ctx():
    """(harness, ct) for the calling thread; (None, None) in free mode."""
    h = _H
    if h is None:
        return None, None
    ct = getattr(_tls, "ct", None)
    if ct is None or ct.h is not h:
        return None, None
    return h, ct


# ---------------------------------------------------------------------------------------------
# cooperative primitives
# ---------------------------------------------------------------------------------------------
def _deadline(timeout):
    if timeout is None or timeout < 0:
        return None
    return _clock.us + _us(timeout)


def _free_wait(what, timeout):
    """Free mode: a wait that nobody else can satisfy."""
    if timeout is None or timeout < 0:
        raise DeadlockError(f"{what}: would block forever outside a controlled run")
    _clock.us += _us(timeout)


class CLock:
    """Cooperative threading.Lock."""

    _kind = "Lock"

    def __init__(self):
        self._owner = None  # OS thread ident of the holder
        self._owner_ct = None

    def _describe(self):
        o = self._owner_ct
        return f"{_tag(self, self._kind)} held by {'nobody' if self._owner is None else (o.name if o else 'free-mode thread')}"

    def locked(self):
        return self._owner is not None

    def _try(self, me, ct):
        if self._owner is None:
            self._owner = me
            self._owner_ct = ct
            return True
        return False

    def acquire(self, blocking=True, timeout=-1):
        h, ct = _ctx()
        me = _real_get_ident()
        if h is None:
            if self._try(me, None):
                return True
            if not blocking:
                return False
            _free_wait(self._describe(), timeout)
            return False
        h.prim_yield(ct, "acquire", sys._getframe(1))
        if h.aborting:
            self._owner, self._owner_ct = me, ct
            return True
        if self._try(me, ct):
            return True
        if not blocking:
            return False
        dl = _deadline(timeout)
        while True:
            timed_out = h.block(ct, self, dl, "acquire-wait")
            if h.aborting:
                self._owner, self._owner_ct = me, ct
                return True
            if self._try(me, ct):
                return True
            if timed_out:
                return False

    def release(self):
        if self._owner is None:
            raise RuntimeError("release unlocked lock")
        self._owner = None
        self._owner_ct = None
        h, ct = _ctx()
        if h is not None:
            h._wake_blocked_on(self)
            h.prim_yield(ct, "release", sys._getframe(1))

    __enter__ = acquire

    def __exit__(self, *a):
        self._owner = None
        self._owner_ct = None
        h, ct = _ctx()
        if h is not None:
            h._wake_blocked_on(self)
            h.prim_yield(ct, "release", sys._getframe(1))

    # Condition support
    def _is_owned(self):
        return self._owner is not None

    def _release_save(self):
        self._owner = None
        self._owner_ct = None
        h, _ = _ctx()
        if h is not None:
            h._wake_blocked_on(self)
        return None

    def _acquire_restore(self, state):
        self._acquire_quiet()

    def _acquire_quiet(self):
        h, ct = _ctx()
        me = _real_get_ident()
        while not self._try(me, ct):
            if h is None:
                raise DeadlockError(self._describe())
            h.block(ct, self, None, "reacquire-wait")
            if h.aborting:
                self._owner, self._owner_ct = me, ct
                return


class CRLock(CLock):
    """Cooperative threading.RLock."""

    _kind = "RLock"

    def __init__(self):
        super().__init__()
        self._count = 0

    def _try(self, me, ct):
        if self._owner is None:
            self._owner = me
            self._owner_ct = ct
            self._count = 1
            return True
        if self._owner == me:
            self._count += 1
            return True
        return False

    def release(self):
        if self._owner != _real_get_ident():
            h, _ = _ctx()
            if h is not None and h.aborting:
                return
            raise RuntimeError("cannot release un-acquired lock")
        self._count -= 1
        h, ct = _ctx()
        if self._count == 0:
            self._owner = None
            self._owner_ct = None
            if h is not None:
                h._wake_blocked_on(self)
        if h is not None:
            h.prim_yield(ct, "release", sys._getframe(1))

    __enter__ = CLock.acquire

    def __exit__(self, *a):
        if self._owner != _real_get_ident():
            h, _ = _ctx()
            if h is not None and h.aborting:
                return
            raise RuntimeError("cannot release un-acquired lock")
        self._count -= 1
        h, ct = _ctx()
        if self._count == 0:
            self._owner = None
            self._owner_ct = None
            if h is not None:
                h._wake_blocked_on(self)
        if h is not None:
            h.prim_yield(ct, "release", sys._getframe(1))

    def _is_owned(self):
        return self._owner == _real_get_ident()

    def _release_save(self):
        st = self._count
        self._count = 0
        self._owner = None
        self._owner_ct = None
        h, _ = _ctx()
        if h is not None:
            h._wake_blocked_on(self)
        return st

    def _acquire_restore(self, state):
        self._acquire_quiet()
        self._count = state or 1


class CEvent:
    """Cooperative threading.Event."""

    def __init__(self):
        self._flag = False

    def _describe(self):
        return f"{_tag(self, 'Event')} (set={self._flag})"

    def is_set(self):
        return self._flag

    isSet = is_set

    def set(self):
        self._flag = True
        h, ct = _ctx()
        if h is not None:
            h._wake_blocked_on(self)
            h.prim_yield(ct, "event-set", sys._getframe(1))

    def clear(self):
        self._flag = False

    def wait(self, timeout=None):
        h, ct = _ctx()
        if h is None:
            if not self._flag:
                _free_wait(self._describe(), timeout)
            return self._flag
        h.prim_yield(ct, "event-wait", sys._getframe(1))
        if self._flag or h.aborting:
            return self._flag
        dl = _deadline(timeout)
        while not self._flag:
            if h.block(ct, self, dl, "event-wait") or h.aborting:
                break
        return self._flag


class CCondition:
    """Cooperative threading.Condition (FIFO notify, like the stdlib)."""

    def __init__(self, lock=None):
        if lock is None:
            lock = CRLock()
        self._lock = lock
        self.acquire = lock.acquire
        self.release = lock.release
        self._waiters = []

    def _describe(self):
        return f"{_tag(self, 'Condition')} over {self._lock._describe()}"

    def __enter__(self):
        return self._lock.__enter__()

    def __exit__(self, *a):
        return self._lock.__exit__(*a)

    def wait(self, timeout=None):
        if not self._lock._is_owned():
            raise RuntimeError("cannot wait on un-acquired lock")
        h, ct = _ctx()
        if h is None:
            _free_wait(self._describe(), timeout)
            return False
        if h.aborting:
            return False
        token = _Waiter(self)
        self._waiters.append(token)
        saved = self._lock._release_save()
        try:
            timed_out = h.block(ct, token, _deadline(timeout), "cond-wait")
        finally:
            if token in self._waiters:
                self._waiters.remove(token)
            self._lock._acquire_restore(saved)
        return token.notified

    def wait_for(self, predicate, timeout=None):
        end = _deadline(timeout)
        result = predicate()
        while not result:
            if end is not None:
                left = (end - _clock.us) / 1e6
                if left <= 0:
                    break
                self.wait(left)
            else:
                self.wait()
            result = predicate()
        return result

    def notify(self, n=1):
        if not self._lock._is_owned():
            raise RuntimeError("cannot notify on un-acquired lock")
        h, ct = _ctx()
        woken = self._waiters[:n]
        del self._waiters[:n]
        for tok in woken:
            tok.notified = True
            if h is not None:
                h._wake_blocked_on(tok)
        if h is not None:
            h.prim_yield(ct, "notify", sys._getframe(1))

    def notify_all(self):
        self.notify(len(self._waiters))

    notifyAll = notify_all


class _Waiter:
    __slots__ = ("cond", "notified")

    def __init__(self, cond):
        self.cond = cond
        self.notified = False

    def _describe(self):
        return "notify on " + self.cond._describe()


class CSemaphore:
    """Cooperative threading.Semaphore."""

    def __init__(self, value=1):
        if value < 0:
            raise ValueError("semaphore initial value must be >= 0")
        self._value = value

    def _describe(self):
        return f"{_tag(self, 'Semaphore')} (value={self._value})"

    def acquire(self, blocking=True, timeout=None):
        h, ct = _ctx()
        if h is not None:
            h.prim_yield(ct, "sem-acquire", sys._getframe(1))
        dl = _deadline(timeout)
        while self._value <= 0:
            if not blocking:
                return False
            if h is None:
                _free_wait(self._describe(), timeout)
                return False
            if h.aborting:
                return True
            if h.block(ct, self, dl, "sem-wait") and self._value <= 0:
                return False
        self._value -= 1
        return True

    __enter__ = acquire

    def release(self, n=1):
        self._value += n
        h, ct = _ctx()
        if h is not None:
            h._wake_blocked_on(self)
            h.prim_yield(ct, "sem-release", sys._getframe(1))

    def __exit__(self, *a):
        self.release()


class CThread:
    """Cooperative threading.Thread: start() registers a new logical thread with the active run."""

    _counter = 0

    def __init__(self, group=None, target=None, name=None, args=(), kwargs=None, *, daemon=None):
        CThread._counter += 1
        self._target, self._args, self._kwargs = target, args, kwargs or {}
        self.name = name or f"Thread-{getattr(target, '__name__', 'run')}"
        self.daemon = bool(daemon) if daemon is not None else False
        self._ct = None
        self._started = False
        self._finished = False

    def _describe(self):
        return f"end of thread {self.name}"

    def run(self):
        if self._target is not None:
            self._target(*self._args, **self._kwargs)

    def _body(self):
        try:
            self.run()
        finally:
            self._finished = True

    def start(self):
        if self._started:
            raise RuntimeError("threads can only be started once")
        h, ct = _ctx()
        if h is None:
            raise HarnessError(f"{self.name}: a cooperative Thread was started outside a controlled run")
        self._started = True
        if h.aborting:
            self._finished = True
            return
        self._ct = h.new_thread(self._body, self.name, self.daemon, False, owner=self)
        h.prim_yield(ct, "thread-start", sys._getframe(1))

    def is_alive(self):
        return self._started and not self._finished

    @property
    def ident(self):
        return None if self._ct is None or self._ct.os_thread is None else self._ct.os_thread.ident

    def join(self, timeout=None):
        if not self._started:
            raise RuntimeError("cannot join thread before it is started")
        h, ct = _ctx()
        if h is None:
            if not self._finished:
                _free_wait(self._describe(), timeout)
            return
        h.prim_yield(ct, "join", sys._getframe(1))
        dl = _deadline(timeout)
        while self._ct is not None and self._ct.state != DONE and not h.aborting:
            if h.block(ct, self._ct, dl, "join-wait"):
                break

    def setDaemon(self, v):  # noqa: N802
        self.daemon = v

    def isDaemon(self):  # noqa: N802
        return self.daemon

    def getName(self):  # noqa: N802
        return self.name


class CTimer(CThread):
    """Cooperative threading.Timer on the fake clock."""

    def __init__(self, interval, function, args=None, kwargs=None):
        super().__init__(name=f"Timer-{getattr(function, '__name__', 'fn')}")
        self.interval = interval
        self.function = function
        self.args = args if args is not None else []
        self.kwargs = kwargs if kwargs is not None else {}
        self.finished = CEvent()

    def cancel(self):
        self.finished.set()

    def run(self):
        self.finished.wait(self.interval)
        if not self.finished.is_set():
            self.function(*self.args, **self.kwargs)
        self.finished.set()


class CFuture:
    """Cooperative concurrent.futures.Future (subset: what reactivex and typical callers use)."""

    def __init__(self):
        self._state = "PENDING"
        self._result = None
        self._exception = None
        self._callbacks = []

    def _describe(self):
        return f"{_tag(self, 'Future')} ({self._state})"

    def cancel(self):
        if self._state in ("RUNNING", "FINISHED"):
            return False
        if self._state == "PENDING":
            self._state = "CANCELLED"
            self._fire()
        return True

    def cancelled(self):
        return self._state == "CANCELLED"

    def running(self):
        return self._state == "RUNNING"

    def done(self):
        return self._state in ("CANCELLED", "FINISHED")

    def set_running_or_notify_cancel(self):
        if self._state == "CANCELLED":
            return False
        self._state = "RUNNING"
        return True

    def _fire(self):
        h, ct = _ctx()
        if h is not None:
            h._wake_blocked_on(self)
        cbs, self._callbacks = self._callbacks, []
        for cb in cbs:
            try:
                cb(self)
            except Exception:  # noqa: BLE001 - stdlib logs and continues
                pass
        if h is not None:
            h.prim_yield(ct, "future-done", sys._getframe(2))

    def set_result(self, result):
        if self.done():
            raise _real_cf.InvalidStateError(f"{self._state}: {self!r}")
        self._result = result
        self._state = "FINISHED"
        self._fire()

    def set_exception(self, exception):
        if self.done():
            raise _real_cf.InvalidStateError(f"{self._state}: {self!r}")
        self._exception = exception
        self._state = "FINISHED"
        self._fire()

    def add_done_callback(self, fn):
        if self.done():
            fn(self)
        else:
            self._callbacks.append(fn)

    def _wait(self, timeout):
        h, ct = _ctx()
        if self.done():
            return
        if h is None:
            _free_wait(self._describe(), timeout)
            raise _real_cf.TimeoutError()
        h.prim_yield(ct, "future-wait", sys._getframe(2))
        dl = _deadline(timeout)
        while not self.done() and not h.aborting:
            if h.block(ct, self, dl, "future-wait") and not self.done():
                raise _real_cf.TimeoutError()

    def result(self, timeout=None):
        self._wait(timeout)
        if self._state == "CANCELLED":
            raise _real_cf.CancelledError()
        if self._exception is not None:
            raise self._exception
        return self._result

    def exception(self, timeout=None):
        self._wait(timeout)
        if self._state == "CANCELLED":
            raise _real_cf.CancelledError()
        return self._exception


class CThreadPoolExecutor:
    """Cooperative ThreadPoolExecutor: at most max_workers controlled threads, FIFO work queue.
    Worker threads are daemon logical threads that end when the queue is empty."""

    def __init__(self, max_workers=None, thread_name_prefix="", initializer=None, initargs=()):
        self._max = max_workers or 4
        self._queue = []
        self._workers = 0
        self._shutdown = False
        self._seq = 0

    def submit(self, fn, /, *args, **kwargs):
        if self._shutdown:
            raise RuntimeError("cannot schedule new futures after shutdown")
        f = CFuture()
        self._queue.append((f, fn, args, kwargs))
        if self._workers < self._max:
            self._workers += 1
            self._seq += 1
            CThread(target=self._worker, name=f"pool-worker-{self._seq}", daemon=True).start()
        return f

    def _worker(self):
        try:
            while self._queue:
                f, fn, args, kwargs = self._queue.pop(0)
                if not f.set_running_or_notify_cancel():
                    continue
                try:
                    r = fn(*args, **kwargs)
                except _Abort:
                    raise
                except BaseException as e:  # noqa: BLE001
                    f.set_exception(e)
                else:
                    f.set_result(r)
        finally:
            self._workers -= 1

    def shutdown(self, wait=True, *, cancel_futures=False):
        self._shutdown = True
        if cancel_futures:
            for f, *_ in self._queue:
                f.cancel()
            self._queue.clear()

    def __enter__(self):
        return self

    def __exit__(self, *a):
        self.shutdown()
        return False


CFuture.__class_getitem__ = classmethod(lambda cls, item: cls)


# ---------------------------------------------------------------------------------------------
# patching reactivex module namespaces
# ---------------------------------------------------------------------------------------------
class _ThreadingProxy(types.ModuleType):
    """Stands in for the `threading` module inside reactivex modules that do `import threading`."""

    def __init__(self):
        super().__init__("threading")
        self.Lock, self.RLock, self.Event, self.Condition = CLock, CRLock, CEvent, CCondition
        self.Semaphore = self.BoundedSemaphore = CSemaphore
        self.Thread, self.Timer = CThread, CTimer

    def __getattr__(self, name):  # everything else (current_thread, local, get_ident, ...) is real
        return getattr(_real_threading, name)


_threading_proxy = _ThreadingProxy()
_LOCK_T = type(_real_threading.Lock())
_RLOCK_T = type(_real_threading.RLock())


def _value_map():
    import reactivex.internal.basic as _basic

    m = {
        id(_real_threading.Lock): CLock, id(_real_threading.RLock): CRLock, id(_real_threading.Event): CEvent,
        id(_real_threading.Condition): CCondition, id(_real_threading.Semaphore): CSemaphore,
        id(_real_threading.BoundedSemaphore): CSemaphore, id(_real_threading.Thread): CThread,
        id(_real_threading.Timer): CTimer, id(_real_cf.Future): CFuture,
        id(_real_cf.ThreadPoolExecutor): CThreadPoolExecutor, id(_real_threading): _threading_proxy,
    }  # fmt: skip
    global _real_default_now
    if _real_default_now is None:
        _real_default_now = _basic.default_now
    m[id(_real_default_now)] = now
    return m, _real_default_now


def _coop_instance(v):
    """Cooperative replacement for a real primitive *instance* created at import, or None."""
    if type(v) is _LOCK_T:
        return CLock()
    if type(v) is _RLOCK_T:
        return CRLock()
    if type(v) is _real_threading.Event:
        return CEvent()
    if type(v) is _real_threading.Condition:
        return CCondition()
    return None


_patch_state = None
_real_default_now = None
_scan_cache = None
_imported_all = False
_REAL_PRIMS = None  # tuple of the real primitive instance types, filled lazily


def _real_prim_types():
    global _REAL_PRIMS
    if _REAL_PRIMS is None:
        _REAL_PRIMS = (_LOCK_T, _RLOCK_T, _real_threading.Event, _real_threading.Condition, _real_threading.Semaphore,
                       _real_threading.BoundedSemaphore)  # fmt: skip
    return _REAL_PRIMS


def import_all():
    """Import every reactivex submodule now (once per process).  reactivex imports most operator / observable
    modules lazily inside functions; a module first imported during a patched session would keep the real
    threading names and its import would run under the tracer.  Optional integrations whose third-party
    dependency is missing (mainloop/eventloop schedulers) are skipped silently."""
    global _imported_all
    if _imported_all:
        return
    import importlib
    import pkgutil

    import reactivex

    def onerror(name):
        pass

    for m in pkgutil.walk_packages(reactivex.__path__, "reactivex.", onerror=onerror):
        if m.name in sys.modules:
            continue
        try:
            importlib.import_module(m.name)
        except Exception:  # noqa: BLE001 - optional dependency missing or import-time failure: not our business
            pass
    _imported_all = True


def _is_candidate(v):
    """Instance (not class / function / module) of a class defined in reactivex, or a threading.local."""
    if isinstance(v, (type, types.ModuleType, types.FunctionType, types.BuiltinFunctionType, types.MethodType)):
        return False
    if isinstance(v, _real_threading.local):
        return True
    mod = getattr(type(v), "__module__", "") or ""
    return mod == "reactivex" or mod.startswith("reactivex.")


def _scan(mods):
    """[(module dict | None, class | None, name, original, how)] where `how` is a factory of the replacement,
    None (thread-local: re-create with type(orig)() after everything else is patched) or "inside" (an
    import-time instance whose *inner* real primitives are swapped in place at every patch)."""
    vmap, _ = _value_map()
    out = []
    seen_cls_attr = set()
    for mod in mods:
        d = vars(mod)
        for name, val in list(d.items()):
            rep = vmap.get(id(val))
            if rep is not None:
                out.append((d, None, name, val, (lambda r=rep: r)))
                continue
            rep = _coop_instance(val)
            if rep is not None:
                out.append((d, None, name, val, type(rep)))
            elif isinstance(val, type) and (getattr(val, "__module__", "") or "").startswith("reactivex"):
                stack = [val]
                while stack:  # the class and its nested classes
                    klass = stack.pop()
                    for an, av in list(vars(klass).items()):
                        if (id(klass), an) in seen_cls_attr:
                            continue
                        seen_cls_attr.add((id(klass), an))
                        rep = _coop_instance(av)
                        if rep is not None:
                            out.append((None, klass, an, av, type(rep)))
                        elif an == "_global" and isinstance(av, weakref.WeakKeyDictionary):
                            out.append((None, klass, an, av, weakref.WeakKeyDictionary))
                        elif isinstance(av, _real_threading.local):
                            out.append((None, klass, an, av, None))
                        elif isinstance(av, type):
                            if (getattr(av, "__module__", "") or "").startswith("reactivex") and av.__qualname__.startswith(klass.__qualname__ + "."):
                                stack.append(av)
                        elif _is_candidate(av):
                            out.append((None, klass, an, av, "inside"))
            elif isinstance(val, _real_threading.local):
                out.append((d, None, name, val, None))
            elif _is_candidate(val):
                out.append((d, None, name, val, "inside"))
    return out


def _coop_for(real, memo):
    """Cooperative stand-in for the real primitive instance `real` (same sharing: one stand-in per real object)."""
    r = memo.get(id(real))
    if r is not None:
        return r[1]
    t = type(real)
    if t is _LOCK_T:
        new = CLock()
    elif t is _RLOCK_T:
        new = CRLock()
    elif t is _real_threading.Event:
        new = CEvent()
        new._flag = real.is_set()
    elif t is _real_threading.Condition:
        inner = getattr(real, "_lock", None)
        new = CCondition(_coop_for(inner, memo) if type(inner) in (_LOCK_T, _RLOCK_T) else None)
    else:  # Semaphore / BoundedSemaphore
        new = CSemaphore(getattr(real, "_value", 1))
    memo[id(real)] = (real, new)
    return new


def _children(obj):
    """(container, key, value) triples of the attribute / item slots of obj that the walkers look into."""
    d = getattr(obj, "__dict__", None)
    if isinstance(d, dict):
        for k, v in list(d.items()):
            yield d, k, v
    if isinstance(obj, dict):
        for k, v in list(obj.items())[:64]:
            yield obj, k, v
    elif isinstance(obj, list):
        for i, v in enumerate(obj[:64]):
            yield obj, i, v
    elif isinstance(obj, (tuple, set, frozenset)) or type(obj).__name__ == "deque":
        for v in list(obj)[:64]:
            yield None, None, v


_SKIP_WALK = (type, types.ModuleType, types.FunctionType, types.BuiltinFunctionType, types.MethodType, str, bytes, int,
              float, bool, type(None), CLock, CEvent, CCondition, CSemaphore)  # fmt: skip


def _swap_inside(obj, memo, undo, depth=4, seen=None, path="", found=None):
    """Replace every real primitive reachable from obj (attributes, list/dict items; depth-limited) by a cooperative
    stand-in, in place; record (container, None, key, original) in `undo`.  Returns the paths swapped."""
    seen = set() if seen is None else seen
    found = [] if found is None else found
    if id(obj) in seen or depth < 0 or isinstance(obj, _SKIP_WALK):
        return found
    seen.add(id(obj))
    prims = _real_prim_types()
    for cont, key, val in _children(obj):
        if type(val) in prims:
            if cont is None:
                raise HarnessError(f"real {type(val).__name__} inside an immutable container at {path}: cannot be made cooperative")
            undo.append((cont, None, key, val))
            cont[key] = _coop_for(val, memo)
            found.append(f"{path}.{key}")
        else:
            _swap_inside(val, memo, undo, depth - 1, seen, f"{path}.{key}" if key is not None else path + "[]", found)
    return found


def reactivex_dir() -> str:
    import reactivex

    return os.path.dirname(os.path.abspath(reactivex.__file__)) + os.sep


def patch_modules(clock: FakeClock | None = None, extra_modules=()):
    """Import all reactivex submodules (see import_all), then replace, in every reactivex.* module (and
    `extra_modules`):
      * names bound to threading.Lock/RLock/Event/Condition/Semaphore/Thread/Timer, to
        concurrent.futures.Future/ThreadPoolExecutor, to the `threading` module itself, and to
        `default_now` (matched by value identity, so aliases are found too);
      * module-level and class-level primitive *instances* created at import
        (TimeoutScheduler._lock, ImmediateScheduler._lock, ...);
      * real primitives *inside* module-level / class-level instances of reactivex classes created at import
        (e.g. a Trampoline stored as a class attribute): swapped in place for cooperative stand-ins with the
        same sharing (a Condition keeps using the stand-in of its lock), the object itself stays the same;
      * per-class / per-thread singletons that may carry state or real locks from before the patch:
        `<Scheduler>._global` WeakKeyDictionaries and every class- or module-level threading.local
        (re-created with type(obj)(), e.g. CurrentThreadSchedulerSingleton._local).
    Objects under test must be created after this call.  Returns a report dict
    {"names": [(module, name)], "instances": [(owner, attr)], "inside": [path]}.  Undo with unpatch_modules()
    (everything, including the in-place swaps, is restored)."""
    global _patch_state, _clock, _scan_cache
    if _patch_state is not None:
        raise HarnessError("patch_modules() called twice without unpatch_modules()")
    import reactivex  # noqa: F401  (must be imported by the caller's sys.path rules)
    import reactivex.scheduler  # noqa: F401

    import_all()
    mods = [m for n, m in sorted(sys.modules.items()) if m is not None and (n == "reactivex" or n.startswith("reactivex."))]
    mods += [m for m in extra_modules]
    sig = tuple(id(m) for m in mods)
    if _scan_cache is None or _scan_cache[0] != sig:
        _scan_cache = (sig, _scan(mods))
    undo = []
    report = {"names": [], "instances": [], "inside": []}
    late, inside = [], []
    try:
        for d, cls, name, orig, make in _scan_cache[1]:
            cur = d.get(name) if d is not None else vars(cls).get(name)
            if make == "inside":
                if cur is not None:
                    inside.append((d, cls, name, cur))
                continue
            if cur is not orig:
                raise HarnessError(f"patch_modules: {name} changed since the scan")
            if d is not None:
                report["names"].append((d.get("__name__"), name))
            else:
                report["instances"].append((f"{cls.__module__}.{cls.__qualname__}", name))
            undo.append((d, cls, name, orig))
            if make is None:
                late.append((d, cls, name, orig))
            elif d is not None:
                d[name] = make()
            else:
                setattr(cls, name, make())
        # thread-local singletons are re-created last, when their class sees the patched names
        for d, cls, name, orig in late:
            new = type(orig)()
            if d is not None:
                d[name] = new
            else:
                setattr(cls, name, new)
        memo = {}
        for d, cls, name, cur in inside:
            owner = d.get("__name__") if d is not None else f"{cls.__module__}.{cls.__qualname__}"
            report["inside"] += _swap_inside(cur, memo, undo, path=f"{owner}.{name}")
    except BaseException:
        _restore(undo)
        raise
    prev_clock = _clock
    if clock is not None:
        _clock = clock
    _patch_state = (undo, prev_clock)
    return report


def _restore(undo):
    for d, cls, name, val in reversed(undo):
        if d is not None:
            d[name] = val
        else:
            setattr(cls, name, val)


def unpatch_modules():
    global _patch_state, _clock
    if _patch_state is None:
        return
    undo, prev_clock = _patch_state
    _restore(undo)
    _clock = prev_clock
    _patch_state = None


def fresh_thread_state():
    """Give every class-level `_global` WeakKeyDictionary and every class-/module-level threading.local of
    reactivex (CurrentThreadScheduler._global, CurrentThreadSchedulerSingleton._local, the Timeout/Immediate
    singletons) a fresh empty instance, so thread-keyed library state of an earlier run (pooled OS threads!)
    cannot leak into the next one.  Only while patched (unpatch restores the originals).  run_program does this
    itself at the start of a run when fresh_thread_state=True (the default with reuse_threads=True)."""
    if _patch_state is None or _scan_cache is None:
        raise HarnessError("fresh_thread_state() requires det.patched()")
    for d, cls, name, orig, make in _scan_cache[1]:
        if make is None:
            new = type(orig)()
        elif make is weakref.WeakKeyDictionary:
            new = make()
        else:
            continue
        if d is not None:
            d[name] = new
        else:
            setattr(cls, name, new)


class patched:
    """Context manager: `with det.patched(clock=None) as env:` -> env.clock, env.report."""

    def __init__(self, clock: FakeClock | None = None, extra_modules=()):
        self.clock = clock or FakeClock()
        self.extra = extra_modules
        self.report = None

    def __enter__(self):
        self.report = patch_modules(self.clock, self.extra)
        return self

    def __exit__(self, *exc):
        unpatch_modules()
        return False


def audit_object(obj, depth=3, _seen=None, _path="obj", rx_holder_only=False):
    """Paths of real (non-cooperative) lock/event/condition instances reachable from obj's attributes and
    list/dict items.  With rx_holder_only=True only primitives held directly by an instance of a reactivex class
    are reported.  Use in a check's self-test to make sure the object under test was built after patching."""
    out = []
    _seen = _seen if _seen is not None else set()
    if id(obj) in _seen or depth < 0 or isinstance(obj, _SKIP_WALK):
        return out
    _seen.add(id(obj))
    prims = _real_prim_types()
    if type(obj) in prims:
        return [_path]
    is_rx = (getattr(type(obj), "__module__", "") or "").startswith("reactivex")
    for cont, key, val in _children(obj):
        p = f"{_path}.{key}" if key is not None else _path + "[]"
        if type(val) in prims:
            if is_rx or not rx_holder_only:
                out.append(p)
        else:
            out += audit_object(val, depth - 1, _seen, p, rx_holder_only)
    return out


def audit(*objs, depth=4):
    """Raise HarnessError (fast, instead of a hang later) if a real threading primitive is reachable from any of
    `objs`, i.e. the object was built before det.patched() or by code whose names det does not patch."""
    for i, o in enumerate(objs):
        bad = audit_object(o, depth=depth, _path=f"{type(o).__name__}")
        if bad:
            raise HarnessError(f"object {i} carries real threading primitives (built before det.patched()?): {bad[:6]}")


def _callable_roots(fn):
    """Objects a thread callable closes over (bound self, closure cells, partial arguments, defaults)."""
    roots = []
    seen = 0
    while fn is not None and seen < 4:
        seen += 1
        roots.append(getattr(fn, "__self__", None))
        for c in getattr(fn, "__closure__", None) or ():
            try:
                roots.append(c.cell_contents)
            except ValueError:
                pass
        roots += list(getattr(fn, "__defaults__", None) or ())
        roots += list(getattr(fn, "args", None) or ())
        fn = getattr(fn, "func", None) or getattr(fn, "__func__", None)
    return [r for r in roots if r is not None]


# ---------------------------------------------------------------------------------------------
# running programs
# ---------------------------------------------------------------------------------------------
def run_program(threads, schedule=(), *, max_steps=20000, wall_timeout=20.0, opcodes=(), prim_yields="auto",
                extra_trace=(), time_limit_s=None, names=None, trace=True, reuse_threads=False,
                fresh_thread_state=None, stall_timeout=5.0, clock_us=None, audit=False) -> RunResult:  # fmt: skip
    """Run the callables `threads` as logical threads 0..T-1 under `schedule` = [[step, tid], ...].

    opcodes: iterable of co_qualname whose frames also yield per bytecode, or True for all traced frames.
    extra_trace: extra directory/file path prefixes whose frames are line-traced (e.g. asyncio files).
    trace=False turns line tracing off (yield points only at primitives and explicit yields).
    time_limit_s: do not advance the fake clock beyond this many seconds after EPOCH.
    reuse_threads=True runs logical threads on pooled OS threads (5-10x faster on a loaded machine).
    fresh_thread_state: reset reactivex's thread-keyed singletons (see fresh_thread_state()) before the threads
      start; default = reuse_threads, so pooled OS threads do not carry trampolines/schedulers from earlier runs.
    clock_us: set the fake clock to this value before the run (every run of a case should start at the same instant).
    stall_timeout: if no step is executed for this many wall-clock seconds the running thread is assumed to be
      blocked on a REAL primitive (object built before patching / by unpatched code): HarnessError naming the
      thread's stack and the real primitives reachable from the innermost reactivex frame.  None disables.
    audit=True additionally checks, before the run, that no real primitive held by a reactivex object is reachable
      from the thread callables (bound self, closure cells, partial arguments): immediate HarnessError.
    Cyclic garbage collection is switched off for the duration of the run (a finalizer of an older object running
    traced lines at an allocation-dependent moment would make the run non-deterministic) and restored afterwards.
    Must be called while patched (see `patched`) from a thread that is not itself controlled.
    """
    global _H
    if _H is not None:
        raise HarnessError("run_program is not re-entrant")
    if _patch_state is None:
        raise HarnessError("run_program requires det.patched()/patch_modules() to be active")
    if audit:
        for i, fn in enumerate(threads):
            for root in _callable_roots(fn):
                bad = audit_object(root, depth=4, _path=type(root).__name__, rx_holder_only=True)
                if bad:
                    raise HarnessError(f"thread {i} can reach real threading primitives held by reactivex objects "
                                       f"(built before det.patched()?): {bad[:6]}")  # fmt: skip
    if fresh_thread_state if fresh_thread_state is not None else reuse_threads:
        globals()["fresh_thread_state"]()
    if clock_us is not None:
        _clock.us = int(clock_us)
    prefixes = ((reactivex_dir(),) if trace else ()) + tuple(extra_trace)
    h = _Harness(schedule, max_steps, opcodes, prefixes or ("\0",), prim_yields,
                 None if time_limit_s is None else _us(time_limit_s), reuse_threads)  # fmt: skip
    res = RunResult()
    res.schedule = [list(x) for x in schedule]
    _H = h
    # CPython 3.12 implements settrace on top of interpreter-wide sys.monitoring events; changing that event set
    # (first/last tracing thread, first use of f_trace_opcodes) while another thread sits inside traced code can
    # crash the interpreter.  So the controller itself holds a do-nothing trace function for the whole run and
    # turns per-instruction events on *before* any controlled thread starts: the event set then only changes
    # here, while no controlled thread is executing.
    prev_trace = sys.gettrace()
    if h.opcodes or h.all_opcodes:
        sys._getframe().f_trace_opcodes = True
    gc_was_on = _gc.isenabled()
    if gc_was_on:
        _gc.disable()
    sys.settrace(_null_trace)
    try:
        for i, fn in enumerate(threads):
            h.new_thread(fn, (names[i] if names else f"T{i}"), False, True)
        first = h._decide(None, "start")
        if first is not None:
            first.gate.release()
        if not h.done_lock.acquire(timeout=0.25 if stall_timeout is not None else wall_timeout):
            # Wall-clock backstops are scaled by machine load: on an oversubscribed machine (load >> cores) the OS may
            # simply not run the controlled thread for seconds, which is not a stall of the program under test.
            try:
                _f = max(1.0, 2.0 * os.getloadavg()[0] / (os.cpu_count() or 1))
            except OSError:
                _f = 1.0
            _watch(h, wall_timeout * _f, None if stall_timeout is None else stall_timeout * _f)
        h.aborting = True
        stuck = _unwind(h, 5.0)
        if stuck:
            raise HarnessError(f"controlled threads could not be terminated: {stuck}")
    finally:
        _H = None
        sys.settrace(prev_trace)
        if h.opcodes or h.all_opcodes:
            sys._getframe().f_trace_opcodes = False
        if gc_was_on:
            _gc.enable()
    res.events = h.events
    res.steps = h.step
    res.owners, res.labels, res.choices = h.owners, h.labels, h.choices
    res.deadlock = h.deadlock
    res.exceptions, res.returns, res.leftover = h.exceptions, h.returns, h.leftover
    res.budget_exceeded, res.horizon_reached = h.budget_exceeded, h.horizon_reached
    res.nthreads = len(h.threads)
    res.names = {t.tid: t.name for t in h.threads}
    res.clock_us = _clock.us
    for e in h.exceptions.values():
        if isinstance(e, HarnessError):
            raise e
    return res


def _watch(h, wall_timeout, stall_timeout):
    """Controller side of a run that did not finish within the first 250 ms: wait for the end, but fail fast
    (HarnessError) when no step is executed for `stall_timeout` seconds or the wall-clock backstop is hit."""
    import time as _time

    t0 = _time.monotonic() - 0.25
    last_step, last_change = h.step, _time.monotonic()
    while True:
        if h.done_lock.acquire(timeout=0.25):
            return
        now_ = _time.monotonic()
        if h.step != last_step:
            last_step, last_change = h.step, now_
        elif stall_timeout is not None and now_ - last_change >= stall_timeout:
            why = f"no step executed for {stall_timeout}s of wall-clock time at step {h.step}"
            break
        if now_ - t0 >= wall_timeout:
            why = f"wall-clock backstop ({wall_timeout}s) hit at step {h.step}"
            break
    diag = _diagnose(h)
    h.aborting = True
    _unwind(h, 0.5)
    raise HarnessError(f"{why}: {diag}; owners tail={h.owners[-10:]} labels tail={h.labels[-5:]}")


def _diagnose(h):
    """Where is the thread that should be running, and which real primitives can it see?"""
    cur = h.cur
    if cur is None or cur.os_thread is None:
        return "no current thread"
    frame = sys._current_frames().get(cur.os_thread.ident)
    if frame is None:
        return f"thread {cur.name}: no Python frame"
    stack, f = [], frame
    rx_frame = None
    while f is not None and len(stack) < 12:
        fn = f.f_code.co_filename
        stack.append(f"{os.path.basename(fn)}:{f.f_lineno}:{f.f_code.co_name}")
        if rx_frame is None and fn.startswith(h.prefixes):
            rx_frame = f
        f = f.f_back
    real = []
    if rx_frame is not None:
        for k, v in list(rx_frame.f_locals.items()):
            real += audit_object(v, depth=3, _path=k)
    hint = (f"REAL threading primitives reachable from {os.path.basename(rx_frame.f_code.co_filename)}:{rx_frame.f_lineno}:"
            f"{rx_frame.f_code.co_name}: {real[:8]} -- the object was built before det.patched() or by code whose names "
            f"det does not patch, so a controlled thread blocks the OS thread instead of yielding") if real else "no real primitive found in the innermost reactivex frame's locals"  # fmt: skip
    return f"thread {cur.name} is at {' <- '.join(stack[:8])}; {hint}"


def _null_trace(frame, event, arg):
    return None


def _unwind(h, per_thread_timeout):
    """Release every unfinished thread, one at a time, so that it unwinds with _Abort; wait for all."""
    stuck = []
    i = 0
    while i < len(h.threads):  # (threads list cannot grow while aborting: start() is inert then)
        t = h.threads[i]
        i += 1
        w = t.os_thread
        if t.state != DONE:
            try:
                t.gate.release()
            except RuntimeError:
                pass  # gate already released (thread is running towards its end)
        if not w.wait_done(per_thread_timeout):
            stuck.append(t.name)
            continue
        if h.reuse:
            _pool.append(w)
        else:
            w.thread.join(per_thread_timeout)
            if w.thread.is_alive():
                stuck.append(t.name)
    return stuck


def run_checked(factory, schedule=(), *, clock_us=None, **kw):
    """factory() -> (threads, ctx).  Runs the (program, schedule) pair twice on fresh objects and raises
    HarnessError unless both runs produce the same step owners, labels, events and outcome.  Both runs start
    at fake time `clock_us` (default: the clock value on entry; pass the case's start value when earlier runs
    of the case have advanced the clock).  Returns (RunResult, ctx) of the second run."""
    c0 = _clock.us if clock_us is None else int(clock_us)
    _clock.us = c0
    threads, ctx = factory()
    r1 = run_program(threads, schedule, **kw)
    _clock.us = c0
    threads, ctx = factory()
    r2 = run_program(threads, schedule, **kw)
    if r1.fingerprint() != r2.fingerprint():
        raise HarnessError(f"non-deterministic run for schedule {list(schedule)}:\n  {r1.describe()}\n  {r2.describe()}\n  first difference: {_first_diff(r1, r2)}")
    return r2, ctx


def _first_diff(r1, r2):
    for i, (a, b) in enumerate(zip(zip(r1.owners, r1.labels), zip(r2.owners, r2.labels))):
        if a != b:
            return f"step {i}: {a} vs {b}"
    if r1.steps != r2.steps:
        return f"steps {r1.steps} vs {r2.steps}"
    if _scrub(repr(r1.events)) != _scrub(repr(r2.events)):
        for i, (a, b) in enumerate(zip(r1.events, r2.events)):
            if _scrub(repr(a)) != _scrub(repr(b)):
                return f"event {i}: {a!r} vs {b!r}"
        return f"event count {len(r1.events)} vs {len(r2.events)}"
    return f"outcome/clock: {r1.clock_us} vs {r2.clock_us}, {r1.deadlock!r} vs {r2.deadlock!r}, {r1.exceptions!r} vs {r2.exceptions!r}"


# ---------------------------------------------------------------------------------------------
# schedules
# ---------------------------------------------------------------------------------------------
def next_preemptions(res: RunResult, after: int = -1):
    """All effective single extra schedule entries for a run: [step, tid] with step > after, tid runnable at
    that decision and different from the thread that actually ran the step."""
    out = []
    for s in range(after + 1, res.steps):
        own = res.owners[s]
        for t in res.choices[s]:
            if t != own:
                out.append([s, t])
    return out


def k1_schedules(base: RunResult):
    """All schedules with exactly one preemption, derived from the unpreempted run `base`."""
    return [[p] for p in next_preemptions(base)]


def explore(factory, K=1, *, slice_=None, clock_us=None, **kw):
    """Exhaustive exploration of all schedules with at most K entries, breadth-first (all schedules with k
    entries before any with k+1, so the first failure found has the fewest preemptions; every schedule
    extends an explored one by an entry at a later step).  factory() -> (threads, ctx) is called for
    every run; every run starts at fake time `clock_us` (default: the clock value on entry).
    slice_=(i, m): expand only the first-level preemptions whose index is i modulo m (to spread one program
    over m cases); the unpreempted run is always yielded.
    Yields (schedule, RunResult, ctx), starting with the unpreempted run."""
    c0 = _clock.us if clock_us is None else int(clock_us)
    level = [[]]
    for k in range(K + 1):
        nxt = []
        for sched in level:
            _clock.us = c0
            threads, ctx = factory()
            res = run_program(threads, sched, **kw)
            yield sched, res, ctx
            if k < K:
                after = sched[-1][0] if sched else -1
                cand = next_preemptions(res, after)
                if k == 0 and slice_:
                    cand = [p for j, p in enumerate(cand) if j % slice_[1] == slice_[0]]
                nxt.extend(sched + [p] for p in cand)
        level = nxt


def walk(factory, points, *, clock_us=None, **kw):
    """Drawn descent of the exploration tree: start from the unpreempted run; the j-th number of `points`
    picks (modulo) one of the *effective* preemptions after the previous one, so every drawn entry changes the
    interleaving.  Yields (schedule, RunResult, ctx) for every run on the path (len(points)+1 runs at most)."""
    c0 = _clock.us if clock_us is None else int(clock_us)
    sched = []
    for j in range(len(points) + 1):
        _clock.us = c0
        threads, ctx = factory()
        res = run_program(threads, sched, **kw)
        yield list(sched), res, ctx
        if j == len(points):
            return
        cand = next_preemptions(res, sched[-1][0] if sched else -1)
        if not cand:
            return
        sched = sched + [cand[int(points[j]) % len(cand)]]


def raw_schedules(K=3, max_pos=96, max_tid=3):
    """Hypothesis strategy for *raw* schedules: up to K change points [position, thread] (PCT-style:
    a few random priority change points over the run).  Raw positions are resolved against a measured
    unpreempted run with `resolve_schedule`, so the case stays plain data."""
    from hypothesis import strategies as st

    return st.lists(st.tuples(st.integers(0, max_pos - 1), st.integers(0, max_tid - 1)).map(list), min_size=0, max_size=K)


def resolve_schedule(raw, base: RunResult, nthreads=None, effective=False):
    """Map raw [[pos, thread]] onto the steps of `base`: step = pos mod base.steps, tid = thread mod T.
    Entries are sorted by step; of several entries for one step the first is kept.
    effective=True: each raw entry instead picks (pos*T + thread) modulo one of the effective preemptions of
    `base` (next_preemptions), so no drawn entry is a no-op on the base run (later entries may still become
    no-ops once an earlier one has changed the run; use walk() for entries that are effective by construction)."""
    if effective:
        cand = next_preemptions(base)
        if not cand:
            return []
        T = nthreads or max(1, base.nthreads)
        out = {}
        for pos, t in raw:
            s_, tid = cand[(int(pos) * T + int(t)) % len(cand)]
            out.setdefault(s_, tid)
        return [[s_, out[s_]] for s_ in sorted(out)]
    n = max(1, base.steps)
    T = nthreads or max(1, base.nthreads)
    out = {}
    for pos, t in raw:
        out.setdefault(int(pos) % n, int(t) % T)
    return [[s, out[s]] for s in sorted(out)]
