"""Pipeline grammar shared by C01-C04, C08, C09, C39, C44.

A *pipeline case* is JSON:
    {"root": {"f": <root form>, "srcs": [sourceSpec, ...], ...}, "ops": [[opname, args], ...]}
sourceSpec = {"kind": "cold"|"hot"|"sync", "tl": timeline}.

`Builder(lab).build(case)` returns the real Observable.  Every user function handed to the
library is total (defined on every value shape via a stable hash of the canonical form), pure,
logged and armable (lab.fn), so pipelines are well-typed by construction and no rejection
sampling is needed.  The table OPS is the single source of truth: name -> Op(args strategy,
builder, kinds, tags, callback slots).
"""
from __future__ import annotations

from dataclasses import dataclass, field
from typing import Any, Callable

from hypothesis import strategies as st

import reactivex
from reactivex import operators as ops
from reactivex.subject import BehaviorSubject, ReplaySubject, Subject

from .core import HarnessError
from .lab import timelines
from .values import NAMES, canon, stable_hash, val

# ---------------------------------------------------------------------------------------
# argument strategies (JSON-able)

s_count = st.integers(0, 5)
s_count1 = st.integers(1, 4)
s_dur = st.integers(0, 6)
s_dur1 = st.integers(1, 6)
s_pred = st.tuples(st.integers(2, 4), st.lists(st.integers(0, 3), max_size=3, unique=True)).map(lambda t: {"m": t[0], "r": t[1]})
s_key = st.integers(1, 4)
s_val = st.sampled_from(NAMES)
s_bool = st.booleans()
s_tag = st.sampled_from(["a", "b"])


def s_tl(max_len=4, **kw):
    return timelines(max_len=max_len, max_dt=3, **kw)


def s_src(kinds=("cold", "cold", "sync", "hot"), max_len=4, **kw):
    return st.fixed_dictionaries({"kind": st.sampled_from(list(kinds)), "tl": s_tl(max_len, **kw)})


def s_inners(kinds=("cold", "cold", "sync"), **kw):
    return st.lists(s_src(kinds, max_len=3, **kw), min_size=1, max_size=3)


def D(**kw):
    return st.fixed_dictionaries(kw)


NOARGS = st.just({})


# ---------------------------------------------------------------------------------------


@dataclass
class Op:
    name: str
    args: Any  # strategy of JSON dict
    build: Callable[["Builder", dict], Any]  # -> operator function (Observable -> Observable)
    inp: str = "any"  # required input kind: any | obs | notif
    out: str = "same"  # same | any | obs | notif
    tags: frozenset = frozenset()
    slots: tuple = ()  # callback slot names (relative to this op)
    fluent: bool = True  # has a same-named Observable method


OPS: dict[str, Op] = {}


def op(name, args=NOARGS, inp="any", out="same", tags=(), slots=()):
    def deco(f):
        OPS[name] = Op(name, args, f, inp, out, frozenset(tags), tuple(slots))
        return f

    return deco


class Builder:
    """Builds real operators/observables from JSON for one Lab.

    norm: optional function on canonical forms applied before hashing in callbacks (C08 uses it
    to conjugate callbacks by the truthy<->falsy bijection)."""

    def __init__(self, lab, norm=None, prefix=""):
        self.lab = lab
        self.norm = norm
        self.prefix = prefix
        self.opi = 0
        self.cur = ""

    # hashing of arbitrary values, independent of observable identity
    def h(self, *xs):
        c = [canon(x, lambda o: 0) for x in xs]
        if self.norm is not None:
            c = self.norm(c)
        return stable_hash(c)

    def slot(self, s):
        return f"{self.prefix}{self.opi}.{self.cur}.{s}"

    def fn(self, s, f):
        return self.lab.fn(self.slot(s), f)

    # callback families ------------------------------------------------------------------
    def pred(self, s, a):
        m, r = a["m"], set(a["r"])
        return self.fn(s, lambda *xs: self.h(*xs) % m in r)

    def key(self, s, m):
        return self.fn(s, lambda *xs: self.h(*xs) % m)

    def num(self, s):
        return self.fn(s, lambda *xs: self.h(*xs) % 7)

    def mapper(self, s, tag):
        return self.fn(s, lambda *xs: (tag,) + tuple(xs))

    def eq(self, s, m):
        return self.fn(s, lambda a, b: self.h(a) % m == self.h(b) % m)

    def sub(self, s):
        return self.fn(s, lambda a, b: (self.h(a) % 7) - (self.h(b) % 7))

    def src(self, spec):
        return self.lab.source(spec)

    def inner_factory(self, s, specs):
        """value -> a *fresh* logged source chosen by hash among specs."""
        return self.fn(s, lambda *xs: self.src(specs[self.h(*xs) % len(specs)]))

    def inner_factory0(self, s, specs):
        cnt = [0]

        def f():
            i = cnt[0]
            cnt[0] += 1
            return self.src(specs[i % len(specs)])

        return self.fn(s, f)

    # building ---------------------------------------------------------------------------
    def build_op(self, name, args):
        if name not in OPS:
            raise HarnessError(f"unknown op {name}")
        self.cur = name
        o = OPS[name].build(self, args)
        self.opi += 1
        return o

    def build_root(self, root):
        f = root["f"]
        srcs = [self.src(s) for s in root["srcs"]]
        if f == "single":
            return srcs[0]
        if f in ("merge", "concat", "zip", "combine_latest", "amb", "catch", "on_error_resume_next", "fork_join", "with_latest_from"):
            return getattr(reactivex, f)(*srcs)
        if f == "concat_with_iterable":
            return reactivex.concat_with_iterable(srcs)
        if f == "catch_with_iterable":
            return reactivex.catch_with_iterable(srcs)
        if f == "defer":
            self.cur = "defer"
            return reactivex.defer(self.fn("factory", lambda sch: srcs[0]))
        raise HarnessError(f"unknown root {f}")

    def build(self, case):
        o = self.build_root(case["root"])
        for name, args in case["ops"]:
            o = self.build_op(name, args)(o)
        return o


# ---------------------------------------------------------------------------------------
# element-wise / filtering


@op("map", D(tag=s_tag), out="any", slots=("mapper",))
def _(B, a):
    return ops.map(B.mapper("mapper", a["tag"]))


@op("map_indexed", D(tag=s_tag), out="any", tags=("indexed",), slots=("mapper",))
def _(B, a):
    return ops.map_indexed(B.mapper("mapper", a["tag"]))


@op("starmap", D(tag=s_tag), out="any", slots=("mapper",))
def _(B, a):
    return ops.compose(ops.map(lambda x: (x, x)), ops.starmap(B.mapper("mapper", a["tag"])))


@op("starmap_indexed", D(tag=s_tag), out="any", tags=("indexed",), slots=("mapper",))
def _(B, a):
    return ops.compose(ops.map(lambda x: (x, 7)), ops.starmap_indexed(B.mapper("mapper", a["tag"])))


@op("pluck", out="same")
def _(B, a):
    return ops.compose(ops.map(lambda x: {"k": x}), ops.pluck("k"))


@op("filter", D(p=s_pred), slots=("predicate",))
def _(B, a):
    return ops.filter(B.pred("predicate", a["p"]))


@op("filter_indexed", D(p=s_pred), tags=("indexed",), slots=("predicate",))
def _(B, a):
    return ops.filter_indexed(B.pred("predicate", a["p"]))


@op("take", D(n=s_count))
def _(B, a):
    return ops.take(a["n"])


@op("skip", D(n=s_count))
def _(B, a):
    return ops.skip(a["n"])


@op("take_last", D(n=s_count))
def _(B, a):
    return ops.take_last(a["n"])


@op("skip_last", D(n=s_count))
def _(B, a):
    return ops.skip_last(a["n"])


@op("take_last_buffer", D(n=s_count), out="any")
def _(B, a):
    return ops.take_last_buffer(a["n"])


@op("take_while", D(p=s_pred, inc=s_bool), slots=("predicate",))
def _(B, a):
    return ops.take_while(B.pred("predicate", a["p"]), a["inc"])


@op("take_while_indexed", D(p=s_pred, inc=s_bool), tags=("indexed",), slots=("predicate",))
def _(B, a):
    return ops.take_while_indexed(B.pred("predicate", a["p"]), a["inc"])


@op("skip_while", D(p=s_pred), slots=("predicate",))
def _(B, a):
    return ops.skip_while(B.pred("predicate", a["p"]))


@op("skip_while_indexed", D(p=s_pred), tags=("indexed",), slots=("predicate",))
def _(B, a):
    return ops.skip_while_indexed(B.pred("predicate", a["p"]))


@op("distinct", D(k=st.one_of(st.none(), s_key), c=st.one_of(st.none(), s_key)), slots=("key_mapper", "comparer"))
def _(B, a):
    return ops.distinct(B.key("key_mapper", a["k"]) if a["k"] else None, B.eq("comparer", a["c"]) if a["c"] else None)


@op("distinct_until_changed", D(k=st.one_of(st.none(), s_key), c=st.one_of(st.none(), s_key)), slots=("key_mapper", "comparer"))
def _(B, a):
    return ops.distinct_until_changed(B.key("key_mapper", a["k"]) if a["k"] else None, B.eq("comparer", a["c"]) if a["c"] else None)


@op("pairwise", out="any")
def _(B, a):
    return ops.pairwise()


@op("start_with", D(vs=st.lists(s_val, max_size=3)), out="any")
def _(B, a):
    return ops.start_with(*[val(v) for v in a["vs"]])


@op("default_if_empty", D(v=s_val), out="any")
def _(B, a):
    return ops.default_if_empty(val(a["v"]))


@op("ignore_elements")
def _(B, a):
    return ops.ignore_elements()


@op("element_at", D(n=s_count))
def _(B, a):
    return ops.element_at(a["n"])


@op("element_at_or_default", D(n=s_count, v=s_val), out="any")
def _(B, a):
    return ops.element_at_or_default(a["n"], val(a["v"]))


@op("find", D(p=s_pred), out="any", slots=("predicate",))
def _(B, a):
    p = B.pred("predicate", a["p"])
    return ops.find(lambda x, i, s: p(x, i))


@op("find_index", D(p=s_pred), out="any", slots=("predicate",))
def _(B, a):
    p = B.pred("predicate", a["p"])
    return ops.find_index(lambda x, i, s: p(x, i))


@op("materialize", out="notif")
def _(B, a):
    return ops.materialize()


@op("dematerialize", inp="notif", out="any")
def _(B, a):
    return ops.dematerialize()


@op("as_observable")
def _(B, a):
    return ops.as_observable()


@op("slice", D(a=st.one_of(st.none(), st.integers(-3, 4)), b=st.one_of(st.none(), st.integers(-3, 5)), c=st.one_of(st.none(), st.integers(1, 3))))
def _(B, a):
    return ops.slice(a["a"], a["b"], a["c"])


# ---------------------------------------------------------------------------------------
# aggregates


@op("reduce", D(seed=st.one_of(st.none(), s_val)), out="any", slots=("accumulator",))
def _(B, a):
    acc = B.fn("accumulator", lambda s, x: ("r", B.h(s) % 5, x))
    return ops.reduce(acc, val(a["seed"])) if a["seed"] is not None else ops.reduce(acc)


@op("scan", D(seed=st.one_of(st.none(), s_val)), out="any", slots=("accumulator",))
def _(B, a):
    acc = B.fn("accumulator", lambda s, x: ("s", B.h(s) % 5, x))
    return ops.scan(acc, val(a["seed"])) if a["seed"] is not None else ops.scan(acc)


@op("count", D(p=st.one_of(st.none(), s_pred)), out="any", slots=("predicate",))
def _(B, a):
    return ops.count(B.pred("predicate", a["p"]) if a["p"] else None)


@op("sum", out="any", slots=("key_mapper",))
def _(B, a):
    return ops.sum(B.num("key_mapper"))


@op("average", out="any", slots=("key_mapper",))
def _(B, a):
    return ops.average(B.num("key_mapper"))


@op("min", out="same", slots=("comparer",))
def _(B, a):
    return ops.min(B.sub("comparer"))


@op("max", out="same", slots=("comparer",))
def _(B, a):
    return ops.max(B.sub("comparer"))


@op("min_by", D(k=s_key), out="any", slots=("key_mapper",))
def _(B, a):
    return ops.min_by(B.key("key_mapper", a["k"]))


@op("max_by", D(k=s_key), out="any", slots=("key_mapper",))
def _(B, a):
    return ops.max_by(B.key("key_mapper", a["k"]))


@op("to_list", out="any")
def _(B, a):
    return ops.to_list()


@op("to_set", out="any")
def _(B, a):
    return ops.compose(ops.map(lambda x: B.h(x) % 5), ops.to_set())


@op("to_dict", D(k=s_key), out="any", slots=("key_mapper", "element_mapper"))
def _(B, a):
    return ops.to_dict(B.key("key_mapper", a["k"]), B.mapper("element_mapper", "e"))


@op("first", D(p=st.one_of(st.none(), s_pred)), slots=("predicate",))
def _(B, a):
    return ops.first(B.pred("predicate", a["p"]) if a["p"] else None)


@op("first_or_default", D(p=st.one_of(st.none(), s_pred), v=s_val), slots=("predicate",), out="any")
def _(B, a):
    return ops.first_or_default(B.pred("predicate", a["p"]) if a["p"] else None, val(a["v"]))


@op("last", D(p=st.one_of(st.none(), s_pred)), slots=("predicate",))
def _(B, a):
    return ops.last(B.pred("predicate", a["p"]) if a["p"] else None)


@op("last_or_default", D(p=st.one_of(st.none(), s_pred), v=s_val), slots=("predicate",), out="any")
def _(B, a):
    return ops.last_or_default(val(a["v"]), B.pred("predicate", a["p"]) if a["p"] else None)


@op("single", D(p=st.one_of(st.none(), s_pred)), slots=("predicate",))
def _(B, a):
    return ops.single(B.pred("predicate", a["p"]) if a["p"] else None)


@op("single_or_default", D(p=st.one_of(st.none(), s_pred), v=s_val), slots=("predicate",), out="any")
def _(B, a):
    return ops.single_or_default(B.pred("predicate", a["p"]) if a["p"] else None, val(a["v"]))


@op("all", D(p=s_pred), out="any", slots=("predicate",))
def _(B, a):
    return ops.all(B.pred("predicate", a["p"]))


@op("some", D(p=st.one_of(st.none(), s_pred)), out="any", slots=("predicate",))
def _(B, a):
    return ops.some(B.pred("predicate", a["p"]) if a["p"] else None)


@op("contains", D(v=s_val, c=st.one_of(st.none(), s_key)), out="any", slots=("comparer",))
def _(B, a):
    return ops.contains(val(a["v"]), B.eq("comparer", a["c"]) if a["c"] else None)


@op("is_empty", out="any")
def _(B, a):
    return ops.is_empty()


@op("sequence_equal", D(o=s_src(("cold", "sync")), c=st.one_of(st.none(), s_key)), out="any", slots=("comparer",))
def _(B, a):
    return ops.sequence_equal(B.src(a["o"]), B.eq("comparer", a["c"]) if a["c"] else None)


# ---------------------------------------------------------------------------------------
# combination (aux sources are logged)


@op("merge", D(os=st.lists(s_src(), min_size=1, max_size=2)), out="any")
def _(B, a):
    return ops.merge(*[B.src(s) for s in a["os"]])


@op("merge_max", D(n=s_count1), inp="obs", out="any", tags=("higher",))
def _(B, a):
    return ops.merge(max_concurrent=a["n"])


@op("concat", D(os=st.lists(s_src(), min_size=1, max_size=2)), out="any")
def _(B, a):
    return ops.concat(*[B.src(s) for s in a["os"]])


@op("amb", D(o=s_src()), out="any")
def _(B, a):
    return ops.amb(B.src(a["o"]))


@op("zip", D(os=st.lists(s_src(), min_size=1, max_size=2)), out="any")
def _(B, a):
    return ops.zip(*[B.src(s) for s in a["os"]])


@op("zip_with_iterable", D(vs=st.lists(s_val, max_size=4)), out="any", tags=("indexed",))
def _(B, a):
    return ops.zip_with_iterable([val(v) for v in a["vs"]])


@op("combine_latest", D(os=st.lists(s_src(), min_size=1, max_size=2)), out="any")
def _(B, a):
    return ops.combine_latest(*[B.src(s) for s in a["os"]])


@op("with_latest_from", D(os=st.lists(s_src(), min_size=1, max_size=2)), out="any")
def _(B, a):
    return ops.with_latest_from(*[B.src(s) for s in a["os"]])


@op("fork_join", D(os=st.lists(s_src(), min_size=1, max_size=2)), out="any")
def _(B, a):
    return ops.fork_join(*[B.src(s) for s in a["os"]])


@op("take_until", D(o=s_src()))
def _(B, a):
    return ops.take_until(B.src(a["o"]))


@op("skip_until", D(o=s_src()))
def _(B, a):
    return ops.skip_until(B.src(a["o"]))


@op("catch", D(o=s_src()), out="any")
def _(B, a):
    return ops.catch(B.src(a["o"]))


@op("catch_handler", D(os=s_inners()), out="any", slots=("handler",))
def _(B, a):
    f = B.inner_factory("handler", a["os"])
    return ops.catch(lambda e, src: f(e))


@op("on_error_resume_next", D(o=s_src()), out="any")
def _(B, a):
    return ops.on_error_resume_next(B.src(a["o"]))


@op("retry", D(n=st.integers(0, 3)), tags=("resub",))
def _(B, a):
    return ops.retry(a["n"])


@op("repeat", D(n=st.integers(0, 3)), tags=("resub",))
def _(B, a):
    return ops.repeat(a["n"])


# ---------------------------------------------------------------------------------------
# higher order


@op("flat_map", D(os=s_inners()), out="any", tags=("higher",), slots=("mapper",))
def _(B, a):
    return ops.flat_map(B.inner_factory("mapper", a["os"]))


@op("flat_map_indexed", D(os=s_inners()), out="any", tags=("higher", "indexed"), slots=("mapper",))
def _(B, a):
    return ops.flat_map_indexed(B.inner_factory("mapper", a["os"]))


@op("concat_map", D(os=s_inners()), out="any", tags=("higher",), slots=("mapper",))
def _(B, a):
    return ops.concat_map(B.inner_factory("mapper", a["os"]))


@op("switch_map", D(os=s_inners()), out="any", tags=("higher",), slots=("mapper",))
def _(B, a):
    return ops.switch_map(B.inner_factory("mapper", a["os"]))


@op("switch_map_indexed", D(os=s_inners()), out="any", tags=("higher", "indexed"), slots=("mapper",))
def _(B, a):
    return ops.switch_map_indexed(B.inner_factory("mapper", a["os"]))


@op("flat_map_latest", D(os=s_inners()), out="any", tags=("higher",), slots=("mapper",))
def _(B, a):
    return ops.flat_map_latest(B.inner_factory("mapper", a["os"]))


@op("merge_all", inp="obs", out="any", tags=("higher",))
def _(B, a):
    return ops.merge_all()


@op("switch_latest", inp="obs", out="any", tags=("higher",))
def _(B, a):
    return ops.switch_latest()


@op("exclusive", inp="obs", out="any", tags=("higher",))
def _(B, a):
    return ops.exclusive()


@op("expand", D(os=s_inners(("cold", "sync"), terminal=("C", "E"))), out="any", tags=("higher",), slots=("mapper",))
def _(B, a):
    f = B.inner_factory("expand_inner", a["os"])

    def depth(x):
        return 1 + depth(x[1]) if isinstance(x, tuple) and len(x) == 2 and x[0] == "x" else 0

    def mapper(x):
        if depth(x) >= 2:
            return reactivex.empty()
        return f(x).pipe(ops.map(lambda y: ("x", x)))

    return ops.expand(B.fn("mapper", mapper))


@op("map_to_obs", D(os=s_inners()), out="obs", tags=("higher",), slots=("mapper",))
def _(B, a):
    return ops.map(B.inner_factory("mapper", a["os"]))


# ---------------------------------------------------------------------------------------
# windows / buffers / groups


@op("window_with_count", D(n=s_count1, s=st.one_of(st.none(), s_count1)), out="obs", tags=("window",))
def _(B, a):
    return ops.window_with_count(a["n"], a["s"])


@op("buffer_with_count", D(n=s_count1, s=st.one_of(st.none(), s_count1)), out="any")
def _(B, a):
    return ops.buffer_with_count(a["n"], a["s"])


@op("window_with_time", D(t=s_dur1, s=st.one_of(st.none(), s_dur1)), out="obs", tags=("window", "time"))
def _(B, a):
    return ops.window_with_time(B.lab.rel(a["t"]), B.lab.rel(a["s"]) if a["s"] else None)


@op("buffer_with_time", D(t=s_dur1, s=st.one_of(st.none(), s_dur1)), out="any", tags=("time",))
def _(B, a):
    return ops.buffer_with_time(B.lab.rel(a["t"]), B.lab.rel(a["s"]) if a["s"] else None)


@op("window_with_time_or_count", D(t=s_dur1, n=s_count1), out="obs", tags=("window", "time"))
def _(B, a):
    return ops.window_with_time_or_count(B.lab.rel(a["t"]), a["n"])


@op("buffer_with_time_or_count", D(t=s_dur1, n=s_count1), out="any", tags=("time",))
def _(B, a):
    return ops.buffer_with_time_or_count(B.lab.rel(a["t"]), a["n"])


@op("window", D(o=s_src()), out="obs", tags=("window",))
def _(B, a):
    return ops.window(B.src(a["o"]))


@op("buffer", D(o=s_src()), out="any")
def _(B, a):
    return ops.buffer(B.src(a["o"]))


@op("window_when", D(os=s_inners()), out="obs", tags=("window",), slots=("closing_mapper",))
def _(B, a):
    return ops.window_when(B.inner_factory0("closing_mapper", a["os"]))


@op("buffer_when", D(os=s_inners()), out="any", slots=("closing_mapper",))
def _(B, a):
    return ops.buffer_when(B.inner_factory0("closing_mapper", a["os"]))


@op("window_toggle", D(o=s_src(), os=s_inners()), out="obs", tags=("window",), slots=("closing_mapper",))
def _(B, a):
    return ops.window_toggle(B.src(a["o"]), B.inner_factory("closing_mapper", a["os"]))


@op("buffer_toggle", D(o=s_src(), os=s_inners()), out="any", slots=("closing_mapper",))
def _(B, a):
    return ops.buffer_toggle(B.src(a["o"]), B.inner_factory("closing_mapper", a["os"]))


@op("group_by", D(k=s_key, e=st.booleans()), out="obs", tags=("group",), slots=("key_mapper", "element_mapper"))
def _(B, a):
    return ops.group_by(B.key("key_mapper", a["k"]), B.mapper("element_mapper", "g") if a["e"] else None)


@op("group_by_until", D(k=s_key, e=st.booleans(), os=s_inners()), out="obs", tags=("group",), slots=("key_mapper", "element_mapper", "duration_mapper"))
def _(B, a):
    f = B.inner_factory("duration_mapper", a["os"])
    return ops.group_by_until(B.key("key_mapper", a["k"]), B.mapper("element_mapper", "g") if a["e"] else None, lambda g: f(g.key))


@op("join", D(o=s_src(), l=s_inners(), r=s_inners()), out="any", slots=("left_duration", "right_duration"))
def _(B, a):
    return ops.join(B.src(a["o"]), B.inner_factory("left_duration", a["l"]), B.inner_factory("right_duration", a["r"]))


@op("group_join", D(o=s_src(), l=s_inners(), r=s_inners()), out="any", slots=("left_duration", "right_duration"))
def _(B, a):
    return ops.compose(
        ops.group_join(B.src(a["o"]), B.inner_factory("left_duration", a["l"]), B.inner_factory("right_duration", a["r"])),
        ops.flat_map(lambda t: t[1].pipe(ops.map(lambda r: (t[0], r)))),
    )


# ---------------------------------------------------------------------------------------
# time


@op("delay", D(d=s_dur), tags=("time",))
def _(B, a):
    return ops.delay(B.lab.rel(a["d"]))


@op("delay_subscription", D(d=s_dur), tags=("time",))
def _(B, a):
    return ops.delay_subscription(B.lab.rel(a["d"]))


@op("delay_with_mapper", D(sd=st.one_of(st.none(), s_src(("cold", "sync"))), os=s_inners()), tags=("time",), slots=("delay_duration_mapper",))
def _(B, a):
    f = B.inner_factory("delay_duration_mapper", a["os"])
    if a["sd"] is not None:
        return ops.delay_with_mapper(B.src(a["sd"]), f)
    return ops.delay_with_mapper(f)


@op("debounce", D(d=s_dur), tags=("time",))
def _(B, a):
    return ops.debounce(B.lab.rel(a["d"]))


@op("throttle_with_timeout", D(d=s_dur), tags=("time",))
def _(B, a):
    return ops.throttle_with_timeout(B.lab.rel(a["d"]))


@op("throttle_first", D(d=s_dur1), tags=("time",))
def _(B, a):
    return ops.throttle_first(B.lab.rel(a["d"]))


@op("throttle_with_mapper", D(os=s_inners()), tags=("time",), slots=("throttle_duration_mapper",))
def _(B, a):
    return ops.throttle_with_mapper(B.inner_factory("throttle_duration_mapper", a["os"]))


@op("sample", D(d=s_dur1), tags=("time",))
def _(B, a):
    return ops.sample(B.lab.rel(a["d"]))


@op("sample_obs", D(o=s_src()), tags=("time",))
def _(B, a):
    return ops.sample(B.src(a["o"]))


@op("timestamp", out="any", tags=("time", "abstime"))
def _(B, a):
    return ops.timestamp()


@op("time_interval", out="any", tags=("time",))
def _(B, a):
    return ops.time_interval()


@op("take_with_time", D(d=s_dur), tags=("time",))
def _(B, a):
    return ops.take_with_time(B.lab.rel(a["d"]))


@op("skip_with_time", D(d=s_dur), tags=("time",))
def _(B, a):
    return ops.skip_with_time(B.lab.rel(a["d"]))


@op("take_last_with_time", D(d=s_dur), tags=("time",))
def _(B, a):
    return ops.take_last_with_time(B.lab.rel(a["d"]))


@op("skip_last_with_time", D(d=s_dur), tags=("time",))
def _(B, a):
    return ops.skip_last_with_time(B.lab.rel(a["d"]))


@op("take_until_with_time", D(d=s_dur), tags=("time",))
def _(B, a):
    return ops.take_until_with_time(B.lab.rel(a["d"]))


@op("skip_until_with_time", D(d=s_dur), tags=("time",))
def _(B, a):
    return ops.skip_until_with_time(B.lab.rel(a["d"]))


@op("timeout", D(d=s_dur1, o=st.one_of(st.none(), s_src())), out="any", tags=("time",))
def _(B, a):
    return ops.timeout(B.lab.rel(a["d"]), B.src(a["o"]) if a["o"] else None)


@op("timeout_with_mapper", D(f=st.one_of(st.none(), s_src(("cold", "sync"))), os=s_inners(), o=st.one_of(st.none(), s_src())), out="any", tags=("time",), slots=("timeout_duration_mapper",))
def _(B, a):
    return ops.timeout_with_mapper(B.src(a["f"]) if a["f"] else None, B.inner_factory("timeout_duration_mapper", a["os"]), B.src(a["o"]) if a["o"] else None)


@op("observe_on", tags=("time",))
def _(B, a):
    return ops.observe_on(B.lab.sched)


@op("subscribe_on", tags=("time",))
def _(B, a):
    return ops.subscribe_on(B.lab.sched)


# ---------------------------------------------------------------------------------------
# side effects / resources


@op("do_action", D(n=s_bool, e=s_bool, c=s_bool), slots=("on_next", "on_error", "on_completed"))
def _(B, a):
    return ops.do_action(
        B.fn("on_next", lambda x: None) if a["n"] else None,
        B.fn("on_error", lambda e: None) if a["e"] else None,
        B.fn("on_completed", lambda: None) if a["c"] else None,
    )


@op("finally_action", slots=("action",))
def _(B, a):
    return ops.finally_action(B.fn("action", lambda: None))


# ---------------------------------------------------------------------------------------
# multicast (self-contained forms)


@op("share", tags=("multicast",))
def _(B, a):
    return ops.share()


@op("publish_ref_count", tags=("multicast",))
def _(B, a):
    return ops.compose(ops.publish(), ops.ref_count())


@op("publish_mapper", D(tag=s_tag), out="any", tags=("multicast",), slots=("mapper",))
def _(B, a):
    m = B.mapper("inner_mapper", a["tag"])
    return ops.publish(B.fn("mapper", lambda shared: reactivex.merge(shared.pipe(ops.map(m)), shared)))


@op("replay_ref_count", D(n=st.one_of(st.none(), s_count), w=st.one_of(st.none(), s_dur1)), tags=("multicast", "time"))
def _(B, a):
    return ops.compose(ops.replay(buffer_size=a["n"], window=B.lab.rel(a["w"]) if a["w"] else None, scheduler=B.lab.sched), ops.ref_count())


@op("replay_mapper", D(n=st.one_of(st.none(), s_count)), out="any", tags=("multicast",), slots=("mapper",))
def _(B, a):
    return ops.replay(a["n"], mapper=B.fn("mapper", lambda shared: reactivex.concat(shared, shared)), scheduler=B.lab.sched)


@op("publish_value_ref_count", D(v=s_val), tags=("multicast",), out="any")
def _(B, a):
    return ops.compose(ops.publish_value(val(a["v"])), ops.ref_count())


@op("multicast_factory_mapper", D(kind=st.sampled_from(["subject", "behavior", "replay"])), out="any", tags=("multicast",), slots=("subject_factory", "mapper"))
def _(B, a):
    def factory(sch=None):
        k = a["kind"]
        return Subject() if k == "subject" else BehaviorSubject("init") if k == "behavior" else ReplaySubject(2, scheduler=B.lab.sched)

    return ops.multicast(subject_factory=B.fn("subject_factory", factory), mapper=B.fn("mapper", lambda shared: reactivex.zip(shared, shared)))


# scripted (stateful) conditions ---------------------------------------------------------


@op("while_do", D(n=st.integers(0, 3)), tags=("resub", "scripted"), slots=("condition",))
def _(B, a):
    cnt = [0]

    def cond(_):
        cnt[0] += 1
        return cnt[0] <= a["n"]

    return ops.while_do(B.fn("condition", cond))


@op("do_while", D(n=st.integers(0, 3)), tags=("resub", "scripted"), slots=("condition",))
def _(B, a):
    cnt = [0]

    def cond(_):
        cnt[0] += 1
        return cnt[0] <= a["n"]

    return ops.do_while(B.fn("condition", cond))


# ---------------------------------------------------------------------------------------
# pipeline strategy

ROOTS = ["single"] * 6 + ["merge", "concat", "zip", "combine_latest", "amb", "catch", "on_error_resume_next", "fork_join", "with_latest_from", "concat_with_iterable", "catch_with_iterable", "defer"]


def _kind_after(kind, o: Op):
    if o.out == "same":
        return kind
    return o.out


def pipelines(max_ops=4, src_kinds=("cold", "cold", "sync", "hot"), conforming=True, exclude_tags=(), only=None, roots=ROOTS, max_len=5, exclude_ops=(), min_ops=0):
    """Strategy of pipeline cases, well-kinded by construction."""
    excl = set(exclude_tags)
    names_by_inp = {"any": [], "obs": [], "notif": []}
    for n, o in OPS.items():
        if (o.tags & excl) or n in exclude_ops:
            continue
        if only is not None and n not in only:
            continue
        names_by_inp[o.inp].append(n)

    @st.composite
    def _p(draw):
        f = draw(st.sampled_from(list(roots)))
        nsrc = 1 if f in ("single", "defer") else draw(st.integers(1, 3))
        srcs = [draw(s_src(src_kinds, max_len=max_len, conforming=conforming)) for _ in range(nsrc)]
        n = draw(st.integers(min_ops, max_ops))
        kind = "any"
        out = []
        for _ in range(n):
            cands = list(names_by_inp["any"])
            if kind in ("obs", "notif"):
                # prefer consuming the special kind
                special = names_by_inp[kind]
                if special and draw(st.integers(0, 3)) > 0:
                    cands = special
            if not cands:
                break
            name = draw(st.sampled_from(sorted(cands)))
            o = OPS[name]
            args = draw(o.args)
            out.append([name, args])
            kind = _kind_after(kind, o)
        return {"root": {"f": f, "srcs": srcs}, "ops": out}

    return _p()


def op_names(case):
    return [n for n, _ in case["ops"]]


def case_tags(case):
    t = set()
    for n, _ in case["ops"]:
        t |= OPS[n].tags
    return t
