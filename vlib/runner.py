"""Runner: ./check <ID> [--tier quick|thorough] [--replay FILE] [--shard i/n --out FILE]

Exit codes: 0 held (possibly KNOWN-FINDING lines), 1 VIOLATION, 2 harness error.
"""
from __future__ import annotations

import argparse
import importlib
import json
import os
import subprocess
import sys
import time
import traceback

VERIF = os.path.dirname(os.path.dirname(os.path.abspath(__file__)))
REPO = os.environ.get("VERIF_REPO", "/repo")


def _bootstrap_paths() -> None:
    # The library under test is always the *working tree* at REPO (pure python, no build).
    sys.path[:] = [p for p in sys.path if os.path.abspath(p or ".") not in (REPO,)]
    sys.path.insert(0, REPO)
    if VERIF not in sys.path:
        sys.path.insert(1, VERIF)
    deps = os.path.join(VERIF, ".deps")
    if os.path.isdir(deps) and deps not in sys.path:
        sys.path.append(deps)
    sys.dont_write_bytecode = True
    import reactivex  # noqa

    f = os.path.abspath(reactivex.__file__)
    if not f.startswith(os.path.abspath(REPO) + os.sep):
        raise SystemExit(f"HARNESS-ERROR: reactivex imported from {f}, expected under {REPO}")


def _load_findings():
    # VERIF_FINDINGS: developer-only override so a candidate findings file can be tried without touching the committed one
    p = os.environ.get("VERIF_FINDINGS") or os.path.join(VERIF, "known_findings.json")
    if not os.path.exists(p):
        return []
    with open(p) as fh:
        return json.load(fh).get("findings", [])


class Collector:
    def __init__(self):
        self.evaluations = 0
        self.nontrivial_hashes = set()
        self.classes = {}
        self.samples = []
        self.inconclusive = 0
        self.known_hits = {}
        self.per_check = {}

    def add(self, check, case, res, hash_):
        self.evaluations += 1
        pc = self.per_check.setdefault(check, {"evaluations": 0, "nontrivial": 0})
        pc["evaluations"] += 1
        if res.inconclusive:
            self.inconclusive += 1
        for c in res.classes:
            k = f"{check}:{c}"
            self.classes[k] = self.classes.get(k, 0) + 1
        if res.nontrivial and not res.inconclusive:
            if hash_ not in self.nontrivial_hashes:
                self.nontrivial_hashes.add(hash_)
                pc["nontrivial"] += 1
                n = sum(1 for s in self.samples if s["check"] == check)
                if n < 3:
                    self.samples.append({"check": check, "case": case, "classes": list(res.classes)})

    def dump(self):
        return {
            "evaluations": self.evaluations,
            "hashes": sorted(self.nontrivial_hashes),
            "classes": self.classes,
            "samples": self.samples,
            "inconclusive": self.inconclusive,
            "known_hits": self.known_hits,
            "per_check": self.per_check,
        }

    @staticmethod
    def merge(dumps):
        out = Collector()
        for d in dumps:
            out.evaluations += d["evaluations"]
            out.nontrivial_hashes.update(d["hashes"])
            out.inconclusive += d["inconclusive"]
            for k, v in d["classes"].items():
                out.classes[k] = out.classes.get(k, 0) + v
            for k, v in d["known_hits"].items():
                out.known_hits[k] = out.known_hits.get(k, 0) + v
            for k, v in d["per_check"].items():
                pc = out.per_check.setdefault(k, {"evaluations": 0, "nontrivial": 0})
                pc["evaluations"] += v["evaluations"]
                pc["nontrivial"] += v["nontrivial"]
            for s in d["samples"]:
                if sum(1 for x in out.samples if x["check"] == s["check"]) < 3:
                    out.samples.append(s)
        return out


class Violation(Exception):
    def __init__(self, check, case, res):
        super().__init__(f"{check}: {res.sig}: {res.msg}")
        self.check, self.case, self.res = check, case, res


def _classify_exception(exc) -> str:
    """'repo' if the innermost frame is library code, else 'harness'."""
    tb = exc.__traceback__
    last = None
    while tb is not None:
        last = tb.tb_frame.f_code.co_filename
        tb = tb.tb_next
    if last and os.path.abspath(last).startswith(os.path.abspath(REPO) + os.sep):
        return "repo"
    return "harness"


def run_one(check, case):
    """Run a case; convert library crashes to failing Results, harness crashes to HarnessError."""
    from vlib.core import FAIL, HarnessError, Result

    try:
        res = check.run(case)
    except HarnessError:
        raise
    except RecursionError as e:
        return FAIL("escaped:RecursionError", "RecursionError escaped from the library call")
    except Exception as e:  # noqa
        if _classify_exception(e) == "repo":
            tb = traceback.extract_tb(e.__traceback__)
            fr = tb[-1]
            where = f"{os.path.relpath(fr.filename, REPO)}:{fr.name}"
            return FAIL(f"escaped:{type(e).__name__}@{where}", "".join(traceback.format_exception(e))[-1500:])
        raise HarnessError(f"{check.name}: {type(e).__name__}: {e}\n" + "".join(traceback.format_exception(e))) from e
    except BaseException as e:  # lab guards (SpinGuard / BudgetExceeded) escaping a module: inconclusive
        if type(e).__name__ in ("SpinGuard", "BudgetExceeded"):
            from vlib.core import SKIP

            return SKIP(type(e).__name__)
        raise
    if not isinstance(res, Result):
        raise HarnessError(f"{check.name}: run() returned {type(res)}")
    return res


def _known_match(findings, pid, check_name, res):
    for f in findings:
        if f.get("property") == pid and f.get("status") == "open" and f.get("sig") == res.sig:
            if f.get("check") in (None, check_name) or f.get("any_check"):
                return f
    return None


def _write_violation(pid, check, case, res):
    from vlib.core import case_hash

    d = os.path.join(VERIF, "violations", pid)
    os.makedirs(d, exist_ok=True)
    path = os.path.join(d, f"{check}-{case_hash(check, case)}.json")
    with open(path, "w") as fh:
        json.dump({"property": pid, "check": check, "case": case, "sig": res.sig, "msg": res.msg}, fh, indent=1, default=repr)
    return path


def replay_file(mod, path, tier="quick"):
    with open(path) as fh:
        rec = json.load(fh)
    by_name = {c.name: c for c in mod.checks(tier)}
    if rec["check"] not in by_name:
        from vlib.core import HarnessError

        raise HarnessError(f"replay {path}: unknown check {rec['check']}")
    chk = by_name[rec["check"]]
    return chk, rec["case"], run_one(chk, rec["case"])


def pass1(mod, pid, findings, col, tier):
    """Replay regression corpus and re-derive known findings. Returns list of violations."""
    from vlib.core import case_hash

    by_name = {c.name: c for c in mod.checks(tier)}
    violations = []
    # known findings
    for f in findings:
        if f.get("property") != pid or "case" not in f:
            continue
        chk = by_name.get(f.get("check"))
        if chk is None:
            continue
        res = run_one(chk, f["case"])
        col.add(chk.name, f["case"], res, case_hash(chk.name, f["case"]))
        if f.get("status") == "open":
            if not res.ok and res.sig == f.get("sig"):
                print(f"KNOWN-FINDING: property={pid} {f.get('what')}", flush=True)
            elif not res.ok:
                violations.append((chk.name, f["case"], res))
        else:  # fixed: suppresses nothing
            if not res.ok:
                violations.append((chk.name, f["case"], res))
    d = os.path.join(VERIF, "replays", pid)
    if os.path.isdir(d) and not os.environ.get("VERIF_NO_REPLAYS"):  # dev switch: judge the generated search alone
        for fn in sorted(os.listdir(d)):
            if not fn.endswith(".json"):
                continue
            chk, case, res = replay_file(mod, os.path.join(d, fn), tier)
            col.add(chk.name, case, res, case_hash(chk.name, case))
            if not res.ok and not _known_match(findings, pid, chk.name, res):
                violations.append((chk.name, case, res))
    return violations


def run_generated(mod, pid, chk, n_examples, seed, findings, col, shrink_budget_s):
    import hypothesis
    from hypothesis import HealthCheck, Phase, given, settings

    from vlib.core import HarnessError, case_hash

    state = {"first_fail": None, "failing": {}, "best": None}

    def body(case):
        h = case_hash(chk.name, case)
        if state["first_fail"] is not None and time.time() - state["first_fail"] > shrink_budget_s and h not in state["failing"]:
            return  # shrink budget exhausted: stop exploring new candidates
        res = run_one(chk, case)
        col.add(chk.name, case, res, h)
        if res.ok:
            return
        km = _known_match(findings, pid, chk.name, res)
        if km is not None:
            col.known_hits[km["sig"]] = col.known_hits.get(km["sig"], 0) + 1
            return
        if state["first_fail"] is None:
            state["first_fail"] = time.time()
        state["failing"][h] = True
        state["best"] = (case, res)
        raise Violation(chk.name, case, res)

    test = given(chk.strategy)(body)
    test = hypothesis.seed(seed)(test)
    test = settings(
        max_examples=n_examples,
        deadline=None,
        database=None,
        derandomize=False,
        report_multiple_bugs=False,
        print_blob=False,
        suppress_health_check=[HealthCheck.too_slow, HealthCheck.data_too_large, HealthCheck.filter_too_much, HealthCheck.large_base_example],
        phases=[Phase.explicit, Phase.generate, Phase.shrink],
    )(test)
    try:
        test()
    except Violation as v:
        case, res = state["best"]
        return (chk.name, case, res)
    except hypothesis.errors.Flaky as e:  # nondeterministic case: harness bug
        if state["best"] is not None:
            case, res = state["best"]
            res.msg += " [flaky under re-execution]"
            return (chk.name, case, res)
        raise HarnessError(f"{chk.name}: flaky: {e}")
    except BaseExceptionGroup as eg:  # hypothesis may wrap
        if state["best"] is not None:
            case, res = state["best"]
            return (chk.name, case, res)
        raise
    return None


def run_enumerated(mod, pid, chk, tier, shard, nshards, findings, col):
    from vlib.core import case_hash

    for i, case in enumerate(chk.cases(tier)):
        if i % nshards != shard:
            continue
        res = run_one(chk, case)
        col.add(chk.name, case, res, case_hash(chk.name, case))
        if res.ok:
            continue
        km = _known_match(findings, pid, chk.name, res)
        if km is not None:
            col.known_hits[km["sig"]] = col.known_hits.get(km["sig"], 0) + 1
            continue
        return (chk.name, case, res)
    return None


def shard_main(pid, tier, seed, shard, nshards, out, only):
    """Run every check's share for one shard; write JSON to out."""
    _bootstrap_paths()
    from vlib.core import HarnessError

    mod = importlib.import_module(f"props.{pid}")
    findings = _load_findings()
    col = Collector()
    violation = None
    err = None
    try:
        for chk in mod.checks(tier):
            if only and chk.name not in only:
                continue
            n_sh = chk.shards.get(tier, 1)
            if shard >= n_sh:
                continue
            if chk.strategy is not None:
                n = int(chk.examples.get(tier, 100) * float(os.environ.get("VERIF_SCALE", "1")))
                per = max(1, n // n_sh)
                v = run_generated(mod, pid, chk, per, seed * 1000 + shard, findings, col, 40 if tier == "quick" else 120)
            else:
                v = run_enumerated(mod, pid, chk, tier, shard, n_sh, findings, col)
            if v is not None:
                violation = v
                break
    except HarnessError as e:
        err = str(e)
    except Exception as e:  # noqa
        err = "".join(traceback.format_exception(e))
    d = col.dump()
    if violation is not None:
        d["violation"] = {"check": violation[0], "case": violation[1], "sig": violation[2].sig, "msg": violation[2].msg}
    if err is not None:
        d["error"] = err
    with open(out, "w") as fh:
        json.dump(d, fh, default=repr)
    sys.stdout.flush()
    os._exit(0)


def main(argv=None):
    ap = argparse.ArgumentParser()
    ap.add_argument("pid")
    ap.add_argument("--tier", default=os.environ.get("VERIF_TIER", "quick"), choices=["quick", "thorough"])
    ap.add_argument("--replay")
    ap.add_argument("--shard")
    ap.add_argument("--out")
    ap.add_argument("--only", default="")
    a = ap.parse_args(argv)
    seed = int(os.environ.get("VERIF_SEED", "1") or "1")
    pid = a.pid
    only = [x for x in a.only.split(",") if x]
    os.environ["PYTHONHASHSEED"] = os.environ.get("PYTHONHASHSEED", "0")
    os.environ["PYTHONDONTWRITEBYTECODE"] = "1"

    if a.shard:
        i, n = a.shard.split("/")
        return shard_main(pid, a.tier, seed, int(i), int(n), a.out, only)

    t0 = time.time()
    try:
        _bootstrap_paths()
        from vlib.core import HarnessError

        mod = importlib.import_module(f"props.{pid}")
        findings = _load_findings()

        if a.replay:
            chk, case, res = replay_file(mod, a.replay, a.tier)
            if res.ok:
                print(f"replay {a.replay}: property held (check={chk.name})")
                return 0
            km = _known_match(findings, pid, chk.name, res)
            if km:
                print(f"KNOWN-FINDING: property={pid} {km.get('what')}")
                return 0
            print(f"{res.sig}: {res.msg}")
            print(f"VIOLATION property={pid} replay={a.replay}")
            return 1

        col = Collector()
        violations = pass1(mod, pid, findings, col, a.tier)
        dumps = [col.dump()]
        errors = []
        if not violations:
            checks = [c for c in mod.checks(a.tier) if not only or c.name in only]
            nshards = max([c.shards.get(a.tier, 1) for c in checks] or [1])
            work = os.path.join(VERIF, ".work", f"{pid}-{a.tier}-{os.getpid()}")
            os.makedirs(work, exist_ok=True)
            procs = []
            timeout_s = getattr(mod, "TIMEOUT", {"quick": 600, "thorough": 6 * 3600}).get(a.tier, 600)
            for i in range(nshards):
                out = os.path.join(work, f"shard{i}.json")
                cmd = [sys.executable, "-u", "-m", "vlib.runner", pid, "--tier", a.tier, "--shard", f"{i}/{nshards}", "--out", out]
                if only:
                    cmd += ["--only", ",".join(only)]
                env = dict(os.environ)
                env["PYTHONPATH"] = VERIF
                procs.append((i, out, subprocess.Popen(cmd, cwd=VERIF, env=env)))
            deadline = time.time() + timeout_s
            for i, out, p in procs:
                try:
                    p.wait(timeout=max(1, deadline - time.time()))
                except subprocess.TimeoutExpired:
                    p.kill()
                    errors.append(f"shard {i} exceeded {timeout_s}s (inconclusive)")
                    continue
                if not os.path.exists(out):
                    errors.append(f"shard {i} died (rc={p.returncode}) without output")
                    continue
                with open(out) as fh:
                    d = json.load(fh)
                dumps.append(d)
                if "error" in d:
                    errors.append(f"shard {i}: {d['error']}")
                if "violation" in d:
                    from vlib.core import Result

                    v = d["violation"]
                    violations.append((v["check"], v["case"], Result(False, True, (), v["msg"], v["sig"])))
            import shutil

            shutil.rmtree(work, ignore_errors=True)
        merged = Collector.merge(dumps)
        wall = time.time() - t0
        # one violation per distinct signature
        seen = set()
        uniq = []
        for v in violations:
            if v[2].sig not in seen:
                seen.add(v[2].sig)
                uniq.append(v)
        ev = {
            "property_id": pid,
            "tier": a.tier,
            "seed": seed,
            "level": mod.LEVEL,
            "coverage": {
                "evaluations": merged.evaluations,
                "distinct_nontrivial": len(merged.nontrivial_hashes),
                "rule": mod.RULE,
                "samples": merged.samples[:12],
                "classes": dict(sorted(merged.classes.items())),
                "per_check": merged.per_check,
                "inconclusive_discarded": merged.inconclusive,
                "known_finding_hits_excluded": merged.known_hits,
                "exhaustive": bool(all(c.exhaustive for c in mod.checks(a.tier))),
            },
            "assumptions": list(getattr(mod, "ASSUMPTIONS", [])),
            "wall_s": round(wall, 2),
            "violations": len(uniq),
        }
        if errors:
            ev["coverage"]["harness_errors"] = errors
        os.makedirs(os.path.join(VERIF, "evidence"), exist_ok=True)
        with open(os.path.join(VERIF, "evidence", f"{pid}.json"), "w") as fh:
            json.dump(ev, fh, indent=1, default=repr)
        for chk_name, case, res in uniq:
            path = _write_violation(pid, chk_name, case, res)
            print(f"{pid}/{chk_name}: {res.sig}: {res.msg[:600]}")
            print(f"VIOLATION property={pid} replay={path}", flush=True)
        if uniq:
            return 1
        if errors:
            for e in errors:
                print("HARNESS-ERROR:", e[:3000], file=sys.stderr)
            return 2
        print(f"{pid} {a.tier}: held on {merged.evaluations} cases ({len(merged.nontrivial_hashes)} distinct non-trivial) in {wall:.1f}s")
        return 0
    except SystemExit:
        raise
    except Exception as e:  # noqa
        print("HARNESS-ERROR:", "".join(traceback.format_exception(e)), file=sys.stderr)
        return 2


if __name__ == "__main__":
    sys.exit(main())
