"""Helpers shared by props/C02.py and props/C03.py (owned by the C02/C03 builder).

* OBuilder: a pipes.Builder that stamps every logged source with the index of the operator
  that owns it (`src.owner`: -1 = root source, i = aux / factory-made source of operator i).
* DProbe: a lab.Probe that (a) marks source subscriptions which the *subscriber itself* opens
  when it subscribes to a raw logged source handed to it as an element (`src.probe_owned`),
  (b) snapshots the open source subscriptions immediately before and immediately after its
  own dispose().
* TLab: a Lab that records the set of clock values at which any scheduled action ran.
* release_deadline(): the earliest instant, not before a given instant, at which no inner
  (group/window/element-observable) subscriber of the probe is live.
"""
from __future__ import annotations

import sys

from reactivex import Observable

from .core import HarnessError
from .lab import BudgetExceeded, Lab, LabHistoricalScheduler, LabTestScheduler, Probe, SpinGuard, _Logged
from .pipes import OPS, Builder
from .values import Tagged

INF = float("inf")
_DELIVERY = ("on_next", "on_error", "on_completed")
_ADO = "observer/autodetachobserver.py"
_SITEM = "scheduler/scheduleditem.py"


class Diverged(BaseException):
    """Python stack deeper than any finite pipeline of the grammar needs: unbounded synchronous recursion
    (e.g. window_when whose closing observable fires inside subscribe).  BaseException so that no
    `except Exception` in the library converts it into a notification."""


class TScheduler(LabTestScheduler):
    """Detects the library's own spin bump (VirtualTimeScheduler advances the clock after 100 consecutive
    same-instant queue items, cancelled ones included, which the lab's counter does not see): an action that runs
    at a clock value later than both its due time and the time it was scheduled at means virtual time is no longer
    faithful - the run is discarded as 'spin' (C29's business)."""

    def schedule_absolute(self, duetime, action, state=None):
        due = duetime if isinstance(duetime, float) else self.to_seconds(duetime)
        due = max(float(due), float(self._clock))

        def checked(s, st_=None):
            if float(self._clock) > due + 1e-9:
                raise SpinGuard()
            return action(s, st_)

        return super().schedule_absolute(duetime, checked, state)


class THistScheduler(LabHistoricalScheduler):
    """Same spin-bump detection on the datetime clock."""

    def schedule_absolute(self, duetime, action, state=None):
        due = max(self.to_datetime(duetime), self.to_datetime(self._clock))

        def checked(s, st_=None):
            if self.to_datetime(self._clock) > due:
                raise SpinGuard()
            return action(s, st_)

        return super().schedule_absolute(duetime, checked, state)


class TLab(Lab):
    """Lab that records the clock values at which actions ran and aborts runaway synchronous recursion
    before the interpreter's RecursionError (which the library would swallow) can occur."""

    def __init__(self, *a, depth_limit=520, **kw):
        kw.setdefault("budget", 5000)
        super().__init__(*a, **kw)
        self.sched = TScheduler() if self.clock_kind == "test" else THistScheduler()
        self.sched._lab = self
        self.ticks = set()
        self.depth_limit = depth_limit
        self.action_seq = []  # value of the global seq counter at the start of every scheduled action
        self.watch = None  # the top-level DProbe
        self.dispose_in = None  # (slot, k): dispose the watched probe from inside the k-th call of that user callback
        self.continuations = {}  # events after dispose() that are the tail of a handler already running at dispose

    def step(self):
        super().step()
        try:
            sys._getframe(self.depth_limit)
        except ValueError:
            return
        raise Diverged()

    def run(self, until=None):
        try:
            return super().run(until)
        except Diverged:
            self.inconclusive = "recursion"
            self.sched._is_enabled = False
            return self.inconclusive

    def _on_action(self):
        self.ticks.add(self.now())
        self.action_seq.append(self.seq)
        super()._on_action()

    def note_event(self, key):
        """Called just before a user callback is logged / a source subscription is opened.  After the watched
        probe's dispose() has returned, classify the event by the Python stack:
        'tail'          - no *new* notification delivery (AutoDetachObserver.on_* activation that was not on the
                          stack when dispose() was called) encloses it: it is the tail of a handler activation that
                          was already running when dispose() was called from inside a subscriber callback;
        'sync-emission' - the new delivery comes out of a subscribe() call: of a harness source (a source emitting
                          synchronously inside subscribe cannot be stopped before it returns a handle) or of any
                          source whose subscribe() was begun by such a tail;
        unclassified    - a producer that was already running delivered a further notification, or the event
                          happened in a later scheduled action."""
        w = self.watch
        if w is None or w.disposed_seq is None or not w.dispose_frames:
            return
        known = w.dispose_frame_ids
        f = sys._getframe(2)
        new_delivery = False
        while f is not None:
            c = f.f_code
            if c.co_name == "_subscribe_core":
                # a source emitting synchronously inside subscribe(): a harness source whose subscribe() is still
                # running (no handle exists yet), or any subscribe() begun by a handler tail after dispose (e.g. a
                # BehaviorSubject/ReplaySubject replaying to the operator that window() subscribes after emitting)
                if new_delivery and (id(f) not in known or isinstance(f.f_locals.get("self"), _Logged)):
                    self.continuations[key] = "sync-emission"
                    return
                if id(f) in known:
                    break
            elif id(f) in known:
                break
            elif c.co_name in _DELIVERY and c.co_filename.endswith(_ADO):
                new_delivery = True
            elif c.co_name == "invoke" and c.co_filename.endswith(_SITEM) and f.f_back is not None and id(f.f_back) in known:
                # a later work item of a run loop (trampoline batch / virtual-time queue) that was already running
                # when dispose() was called: scheduled work, never a handler tail.  (An invoke whose loop frame is
                # new is a trampoline started inline by the tail itself, e.g. Observable.subscribe.)
                return
            f = f.f_back
        if not new_delivery:
            self.continuations[key] = "tail"
            return
        # a new delivery inside a library subscribe() call that was already in progress when dispose() was called:
        # the observers wired by that call cannot be reached (its disposable has not been returned yet)
        while f is not None:
            c = f.f_code
            if c.co_name == "subscribe" and "/reactivex/" in c.co_filename.replace("\\", "/"):
                self.continuations[key] = "within-subscribe-in-progress"
                return
            f = f.f_back

    def in_window(self, ds, seq):
        """No scheduled action started between the dispose (seq ds) and the event (seq): same synchronous stack."""
        for a in self.action_seq:
            if ds <= a < seq:
                return False
        return True


class OBuilder(Builder):
    def __init__(self, lab, **kw):
        super().__init__(lab, **kw)
        self._owner = -1

    def _mk(self, spec, owner, dynamic):
        lab = self.lab
        s = lab.source(spec)
        s.owner = owner
        s.dynamic = dynamic
        s.probe_owned = set()
        if hasattr(lab, "note_event"):
            orig = s._open

            def _open():
                lab.note_event(("sub", s.name, len(s.subs)))
                return orig()

            s._open = _open
        return s

    def fn(self, s, f):
        w = super().fn(s, f)
        lab = self.lab
        if not hasattr(lab, "note_event"):
            return w

        slot = self.slot(s)

        def hooked(*args):
            lab.note_event(("cb", len(lab.cb_log)))
            di = lab.dispose_in
            if di is None or di[0] != slot:
                return w(*args)
            k = lab.cb_count.get(slot, 0)
            r = w(*args)
            if di[1] == k and lab.watch is not None:
                lab.watch.dispose()  # the user's own callback (teardown code, mapper, ...) unsubscribes the subscriber
            return r

        hooked.__name__ = w.__name__
        return hooked

    def src(self, spec):
        return self._mk(spec, self._owner, False)

    def inner_factory(self, s, specs):
        owner = self._owner
        return self.fn(s, lambda *xs: self._mk(specs[self.h(*xs) % len(specs)], owner, True))

    def inner_factory0(self, s, specs):
        owner = self._owner
        cnt = [0]

        def f():
            i = cnt[0]
            cnt[0] += 1
            return self._mk(specs[i % len(specs)], owner, True)

        return self.fn(s, f)

    def build_op(self, name, args):
        self._owner = self.opi
        return super().build_op(name, args)

    def build_root(self, root):
        self._owner = -1
        return super().build_root(root)


def snapshot_open(lab):
    """[(source, sub index)] of open subscriptions that were opened by the pipeline (not by a probe)."""
    out = []
    for s in lab.sources:
        po = getattr(s, "probe_owned", ())
        for i, (a, b) in enumerate(s.subs):
            if b is None and i not in po:
                out.append((s, i))
    return out


class DProbe(Probe):
    """Probe with dispose snapshots; inner probes are DProbes too."""

    def __init__(self, lab, name="p", raise_terminal=False, no_on_error=False, **kw):
        super().__init__(lab, name, **kw)
        self.raise_terminal = raise_terminal  # the subscriber's own on_error/on_completed handler raises
        self.no_on_error = no_on_error  # subscribe(on_next, None, on_completed): the library's default handler re-raises
        self.open_before = None  # snapshot_open() just before the first dispose()
        self.open_after = None  # ... just after it returned
        self.live_after = None  # inner probes live just after it returned
        self.top = None
        self.sub_seq = None
        self.raw = False  # subscribed directly to a logged source handed over as an element
        self.dispose_frames = []  # frame objects on the stack when dispose() was first called (kept alive: ids stay unique)
        self.dispose_frame_ids = set()
        self.in_progress = set()  # (source name, idx) whose subscribe() had not yet returned a handle at dispose
        self.subscribing = False  # some library subscribe() call was on the stack at dispose (handles not yet handed over)
        if kw.get("depth", 0) == 0 and hasattr(lab, "watch") and lab.watch is None:
            lab.watch = self

    def _adopt(self, o):
        lab = self.lab
        pol = self.inner
        ip = DProbe(lab, f"{self.name}.{len(self.inners)}", inner=pol, depth=self.depth + 1)
        ip.obs = lab.obs_id(o)
        ip.top = self.top or self
        self.inners.append(ip)
        lab.probes.append(ip)
        mode = pol.get("mode", "now")

        def do_sub():
            ip.subscribe(o)
            if pol.get("unsub") is not None:
                lab.sched.schedule_relative(lab.rel(pol["unsub"]), lambda s, st_=None: ip.dispose())

        if mode == "now":
            do_sub()
        elif mode == "late":
            lab.sched.schedule_relative(lab.rel(pol.get("d", 1)), lambda s, st_=None: do_sub())
        elif mode == "never":
            pass
        else:
            raise HarnessError(f"inner mode {mode}")

    def subscribe(self, obs, scheduler="lab"):
        raw = isinstance(obs, _Logged)
        n = len(obs.subs) if raw else 0
        self.raw = raw
        if raw:
            if not hasattr(obs, "probe_owned"):
                obs.probe_owned = set()
            obs.probe_owned.add(n)  # the subscription about to be opened belongs to the subscriber, not the pipeline
        self.sub_seq = self.lab.next_seq()
        try:
            return self._subscribe_with_snap(obs, scheduler)
        finally:
            if raw:
                for i in range(n, len(obs.subs)):
                    obs.probe_owned.add(i)

    def _subscribe_with_snap(self, obs, scheduler):
        self.sub_tick = self.lab.now()
        sch = self.lab.sched if scheduler == "lab" else scheduler
        try:
            d = obs.subscribe(self.on_next, None if self.no_on_error else self.on_error, self.on_completed, scheduler=sch)
        except SpinGuard:
            self.lab.inconclusive = "spin"
            return None
        except BudgetExceeded:
            self.lab.inconclusive = "budget"
            return None
        except (RecursionError, Diverged):
            self.lab.inconclusive = "recursion"
            return None
        self.disposable = d
        if self._pending_dispose:
            self.open_before = snapshot_open(self.lab)
            d.dispose()
            self.disposed_seq = self.lab.next_seq()
            self._after()
        return d

    def on_error(self, e):
        super().on_error(e)
        if self.raise_terminal:
            self._raise_terminal()

    def on_completed(self):
        super().on_completed()
        if self.raise_terminal:
            self._raise_terminal()

    def _raise_terminal(self):
        # if a subscribe() call is on the stack the exception will abort it before it returns its disposable
        # (nobody ever holds a handle to what it had subscribed so far; an enclosing Observable.subscribe may even
        # swallow the exception): such runs are flagged and not judged
        f = sys._getframe(1)
        while f is not None:
            if f.f_code.co_name in ("subscribe", "_subscribe_core"):
                self.lab.through_subscribe = True
                break
            f = f.f_back
        raise Tagged(f"probe:{self.name}:terminal")

    def note_default_error(self, e):
        """no_on_error mode: the default handler re-raised e out of the emitter; that was this subscriber's terminal."""
        self._rec("E", self.lab.canon(e))

    def dispose(self):
        if self.disposed_tick is None:
            self.disposed_tick = self.lab.now()
        if self.disposable is None:
            self._pending_dispose = True  # disposed from inside a callback during subscribe()
            return
        first = self.disposed_seq is None
        if first:
            self.open_before = snapshot_open(self.lab)
            self._capture_stack()
        self.disposable.dispose()
        if first:
            self.disposed_seq = self.lab.next_seq()
            self._after()

    def _capture_stack(self):
        f = sys._getframe(2)
        while f is not None:
            self.dispose_frames.append(f)
            self.dispose_frame_ids.add(id(f))
            c = f.f_code
            if c.co_name in ("subscribe", "dispose") and "/reactivex/" in c.co_filename.replace("\\", "/"):
                # a library subscribe() or dispose() is in progress below us (e.g. dispose() called from user teardown
                # code that runs during a disposal): it finishes its work only when the stack unwinds
                self.subscribing = True
            if c.co_name == "_subscribe_core":
                src = f.f_locals.get("self")
                if isinstance(src, _Logged) and f.f_locals.get("idx") is not None:
                    self.in_progress.add((src.name, f.f_locals["idx"]))
            f = f.f_back

    def _after(self):
        self.open_after = snapshot_open(self.lab)
        top = self.top or self
        self.live_after = [q for q in all_inners(top) if q is not self and q.live_now()]

    # lifetime ------------------------------------------------------------------------------
    def end_tick(self):
        """Tick at which this subscriber stopped being live (terminal or own dispose); None = never."""
        t = self.terminal()
        c = [x for x in (t[0] if t else None, self.disposed_tick) if x is not None]
        return min(c) if c else None

    def end_seq(self):
        t = self.terminal()
        c = [x for x in (t[3] if t else None, self.disposed_seq) if x is not None]
        return min(c) if c else None

    def live_now(self):
        return self.sub_tick is not None and self.terminal() is None and self.disposed_tick is None


def all_inners(p):
    out = []
    for q in p.inners:
        out.append(q)
        out.extend(all_inners(q))
    return out


def release_deadline(t, inners):
    """Earliest instant t' >= t such that at the *end* of t' no inner subscriber is live
    (subscribed at or before t' and not yet terminated/unsubscribed by t').  INF if never."""
    changed = True
    guard = 0
    while changed:
        changed = False
        guard += 1
        if guard > 10000:
            raise HarnessError("release_deadline does not converge")
        for q in inners:
            if q.sub_tick is None or q.sub_tick > t:
                continue
            e = q.end_tick()
            if e is None:
                return INF
            if e > t:
                t = e
                changed = True
    return t


def live_during(q, tick):
    """Inner subscriber q may be live at some point of instant `tick` (generous at both ends)."""
    if q.sub_tick is None or q.sub_tick > tick:
        return False
    e = q.end_tick()
    return e is None or e >= tick


def gw_index(pipe):
    """Largest index of a group/window-producing operator in the pipeline, or None."""
    g = None
    for i, (n, _) in enumerate(pipe["ops"]):
        tags = OPS[n].tags if n in OPS else (("group",) if n.startswith("group_by") else ("window",) if n.startswith("window") else ())
        if "window" in tags or "group" in tags:
            g = i
    return g


def slot_index(slot):
    """Operator index encoded in a callback slot name '<opindex>.<opname>.<slot>'."""
    return int(slot.split(".", 1)[0])
