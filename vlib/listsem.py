"""Shared machinery for C05 / C06 (single operator vs. closed-form list semantics).

Owned by the C05/C06 property modules.  Nothing here uses a reactivex *operator*: the
expected trace is computed by plain Python list code from the timeline in the case.

Case layout (JSON-able)
    {"form": <operator form>, "args": {...}, "sub": S,
     "src": {"kind": "cold"|"hot"|"sync", "tl": timeline}, ["src2": {...same...} | {"kind": "iter", "vals": [payload..]}],
     ["resub": {"mode": "after"|"overlap"|"dispose", "d": k}]}
resub: the SAME built observable is subscribed a second time -- after every source terminated (+1+d ticks; cold/sync
only), overlapping at S+1+d, or at S+d right after disposing the first subscription (for hot sources the tick is clamped
below the hot terminal and the second subscription sees the hot events after its own tick) -- and the
same oracle is applied to the second probe with its own subscribe tick (signature suffix ":2nd-subscription").

Timeline payloads are value names (vlib.values) or structured payloads
    ["tup", [p..]]  ["dct", [[pk, pv]..]]  ["obj", p]  ["on", p]  ["oe", tag]  ["oc"]
Times: cold/sync timelines are relative to the subscription tick S; hot timelines are
absolute after a +1 shift (so every hot event has t >= 1) and the subscription tick is
clamped below every hot terminal: S_eff = min(S, T_hot - 1).  A hot event at t <= S_eff is
not part of the input (the source object is created, and its events scheduled, before the
subscribing action), events with t > S_eff are.

Expected events are triples (tick, kind, payload) with payload = canon(value) for N, None for C,
["exc", tag] for a source error passing through, {"exc_type": name|None} for an exception the
operator itself must produce (None = any non-source exception).
"""
from __future__ import annotations

from hypothesis import strategies as st

from reactivex.notification import OnCompleted, OnError, OnNext

from .core import FAIL, OK, SKIP, HarnessError
from .lab import Lab, LoggedCold, LoggedHot, hkey, hpred
from .values import FALSY_NAMES, HASHABLE_NAMES, NAMES, NUMERIC_NAMES, Tagged, canon, val

# ---------------------------------------------------------------------------------------
# payloads


class Obj:
    """Element type for pluck_attr."""

    def __init__(self, a):
        self.a = a

    def __repr__(self):
        return f"Obj({self.a!r})"


def dval(p):
    """Decode a payload to a *fresh* Python object."""
    if isinstance(p, str):
        return val(p)
    tag = p[0]
    if tag == "tup":
        return tuple(dval(q) for q in p[1])
    if tag == "dct":
        return {dval(k): dval(v) for k, v in p[1]}
    if tag == "obj":
        return Obj(dval(p[1]))
    if tag == "on":
        return OnNext(dval(p[1]))
    if tag == "oe":
        return OnError(Tagged(p[1]))
    if tag == "oc":
        return OnCompleted()
    raise HarnessError(f"payload {p!r}")


class _Dec:
    def _emit(self, observer, kind, payload):
        self.lab.step()
        self.emitted += 1
        if kind == "N":
            observer.on_next(dval(payload))
        elif kind == "E":
            observer.on_error(Tagged(payload))
        elif kind == "C":
            observer.on_completed()
        else:
            raise HarnessError(f"bad kind {kind}")


class DCold(_Dec, LoggedCold):
    pass


class DHot(_Dec, LoggedHot):
    pass


def _check_tl(tl):
    if not tl or tl[-1][1] not in ("C", "E") or any(m[1] != "N" for m in tl[:-1]):
        raise HarnessError(f"timeline must be N* then one terminal: {tl}")
    if any(tl[i][0] > tl[i + 1][0] for i in range(len(tl) - 1)) or tl[0][0] < 0:
        raise HarnessError(f"timeline times must be non-decreasing: {tl}")


def effective_sub(specs, sub):
    s = sub
    for sp in specs:
        if sp["kind"] == "hot":
            s = min(s, sp["tl"][-1][0])  # absolute terminal tick is tl time + 1
    return max(s, 0)


def seen_at(spec, s):
    """What a subscription made at tick s receives: (elems=[(abs_tick, payload)], term=(abs_tick, kind, tag|None))."""
    tl = spec["tl"]
    if spec["kind"] == "hot":
        seen = [[t + 1, k, p] for t, k, p in tl if t + 1 > s]
    else:
        seen = [[t + s, k, p] for t, k, p in tl]
    if not seen or seen[-1][1] not in ("C", "E"):
        raise HarnessError("hot terminal not after subscription")
    return [(m[0], m[2]) for m in seen[:-1]], (seen[-1][0], seen[-1][1], seen[-1][2])


def make_source(lab, spec, s_eff, name):
    """Returns (observable, elems=[(abs_tick, payload)], term=(abs_tick, kind, tag|None))."""
    tl = spec["tl"]
    _check_tl(tl)
    kind = spec["kind"]
    if kind == "hot":
        o = DHot(lab, [[t + 1, k, p] for t, k, p in tl], name)
    elif kind in ("cold", "sync"):
        o = DCold(lab, tl, name, sync=(kind == "sync"))
    else:
        raise HarnessError(f"source kind {kind}")
    lab.sources.append(o)
    elems, term = seen_at(spec, s_eff)
    return o, elems, term


# ---------------------------------------------------------------------------------------
# user callbacks (total, pure; specs are JSON-able)


def mk_pred(spec):
    """None | "truthy" | "self" | {"m": m, "r": [residues]} -> predicate over any number of args."""
    if spec is None:
        return None
    if spec == "truthy":
        return lambda x, *rest: bool(x)
    if spec == "self":  # non-bool result: the element itself, judged by truthiness like Python's filter/takewhile/any/all
        return lambda x, *rest: x
    return hpred(spec["m"], spec["r"])


def mk_key(spec):
    """None | "ident" | {"m": m}"""
    if spec is None:
        return None
    if spec == "ident":
        return lambda x: x
    return hkey(spec["m"])


def mk_eq(spec):
    """None | {"m": m}: equality of hash keys (an equivalence relation, symmetric)."""
    if spec is None:
        return None
    k = hkey(spec["m"])
    return lambda a, b: k(a) == k(b)


def mk_map(spec):
    """None | "tag" (wrap args in a tuple) | {"m": m} (hash key)"""
    if spec is None:
        return None
    if spec == "tag":
        return lambda *a: ("m",) + tuple(a)
    return hkey(spec["m"])


def mk_acc(spec):
    if spec == "pair":
        return lambda a, x: (a, x)
    if spec == "add":
        return lambda a, x: a + x
    raise HarnessError(f"acc {spec}")


# ---------------------------------------------------------------------------------------
# expected-event helpers


def N(t, v):
    return (t, "N", canon(v))


def END(term):
    t, k, tag = term
    return [(t, k, ["exc", tag] if k == "E" else None)]


def ERR(t, type_name=None):
    return (t, "E", {"exc_type": type_name})


def _payload_ok(exp, got):
    if isinstance(exp, dict):
        if not (isinstance(got, list) and len(got) == 3 and got[0] == "exc"):
            return False  # must be an exception the operator created (not a tagged source error)
        return exp["exc_type"] is None or got[1] == exp["exc_type"]
    return exp == got


def diff(expected, got):
    """None if the recorded trace equals the expected one, else a clause name."""
    ev = [(k, p) for _, k, p in expected if k == "N"]
    gv = [(k, p) for _, k, p in got if k == "N"]
    if len(ev) != len(gv) or any(not _payload_ok(a[1], b[1]) for a, b in zip(ev, gv)):
        return "values"
    et = [e for e in expected if e[1] != "N"]
    gt = [g for g in got if g[1] != "N"]
    if len(et) != len(gt) or any(a[1] != b[1] or not _payload_ok(a[2], b[2]) for a, b in zip(et, gt)):
        return "terminal"
    if [e[1] for e in expected] != [g[1] for g in got]:
        return "order"
    if [e[0] for e in expected] != [g[0] for g in got]:
        return "times"
    return None


_FALSY_CANON = [canon(val(n)) for n in FALSY_NAMES]


def run_case(case, build, oracle, extra_classes=None):
    """Build sources + operator, run on virtual time, compare with oracle alternatives.

    build(lab, form, args, second) -> operator function
    oracle(form, args, elems, term, S, second) -> (list of alternative expected traces, classes)
    second = None | ("obs", observable, elems2, term2) | ("iter", [payload..])
    """
    form, args = case["form"], case["args"]
    lab = Lab("hist", tick_s=1.0) if case.get("clock") == "hist" else Lab()
    specs = [case["src"]]
    s2 = case.get("src2")
    if s2 is not None and s2["kind"] != "iter":
        specs.append(s2)
    S = effective_sub(specs, case["sub"])
    src, elems, term = make_source(lab, case["src"], S, "L")
    second = None
    if s2 is not None:
        if s2["kind"] == "iter":
            second = ("iter", list(s2["vals"]))
        else:
            o2, e2, t2 = make_source(lab, s2, S, "R")
            second = ("obs", o2, e2, t2)
    op = build(lab, form, args, second)
    out = src.pipe(op)
    p = lab.probe()
    lab.at(S, lambda: p.subscribe(out))
    # optional second subscription of the SAME observable object (cold / sync sources only)
    rs = case.get("resub")
    p2 = None
    S2 = D = None
    if rs is not None:
        p2 = lab.probe("p2")
        hot_T = [sp["tl"][-1][0] for sp in specs if sp["kind"] == "hot"]  # latest tick still before the hot terminal
        mode = rs["mode"]
        if mode == "after" and hot_T:
            mode = "overlap"  # a hot source cannot be re-subscribed after it terminated
        if mode == "after":
            last = max([term[0]] + ([second[3][0]] if second is not None and second[0] == "obs" else []))
            S2 = last + 1 + rs["d"]
            lab.at(S2, lambda: p2.subscribe(out))
        elif mode == "overlap":
            S2 = max(S, min([S + 1 + rs["d"]] + hot_T))
            lab.at(S2, lambda: p2.subscribe(out))
        elif mode == "dispose":
            S2 = D = max(S, min([S + rs["d"]] + hot_T))

            def _swap():
                p.dispose()
                p2.subscribe(out)

            lab.at(D, _swap)
        else:
            raise HarnessError(f"resub mode {rs['mode']}")
    if lab.run():
        return SKIP(lab.inconclusive)
    alts, cls = oracle(form, args, elems, term, S, second)
    cls = [f"form:{form}", f"src:{case['src']['kind']}", "end:" + term[1]] + list(cls)
    if not elems:
        cls.append("empty-input")
    if any(isinstance(pl, str) and pl in FALSY_NAMES for _, pl in elems):
        cls.append("falsy-in")
    exp0 = alts[0]
    if any(k == "N" and pl in _FALSY_CANON for _, k, pl in exp0):
        cls.append("falsy-out")
    if case["src"]["kind"] == "hot" and len(elems) < len(case["src"]["tl"]) - 1:
        cls.append("hot-missed-prefix")
    if exp0 and exp0[-1][1] != "N" and exp0[-1][0] < term[0]:
        cls.append("ends-before-source")
    if case.get("clock") == "hist":
        cls.append("clock:hist")
    if args.get("p") == "self":
        cls.append("pred:nonbool")
    if extra_classes:
        cls += extra_classes(case, elems, term)
    if lab.escaped is not None:
        e = lab.escaped
        return FAIL(f"escaped:{type(e).__name__}|{form}", f"exception escaped the scheduler: {e!r} case={case}", classes=cls)
    okg, msg = p.grammar_ok()
    if not okg:
        return FAIL(f"grammar|{form}", f"{msg} case={case} got={p.trace()}", classes=cls)
    got = [tuple(e) for e in p.trace()]
    clause = None
    for exp in alts:
        if D is None:
            clause = diff(exp, got)
        else:
            # first subscription disposed at tick D: everything expected before D, nothing after D,
            # and what was received must be a prefix of the expected trace
            head = [e for e in exp if e[0] < D]
            clause = None
            if len(got) < len(head) or len(got) > len(exp) or any(g[0] > D for g in got):
                clause = "disposed-prefix"
            else:
                clause = diff(exp[: len(got)], got)
        if clause is None:
            break
    if clause is not None:
        return FAIL(f"{clause}|{form}", f"case={case} S={S} expected={alts[0]} got={p.trace()}", classes=cls)
    if p2 is not None:
        cls.append("resub:" + mode + (":hot" if hot_T else ""))
        elems_b, term_b = seen_at(case["src"], S2)
        second_b = second
        if second is not None and second[0] == "obs":
            e2b, t2b = seen_at(s2, S2)
            second_b = ("obs", second[1], e2b, t2b)
        alts_b, _ = oracle(form, args, elems_b, term_b, S2, second_b)
        okg, msg = p2.grammar_ok()
        if not okg:
            return FAIL(f"grammar|{form}:2nd-subscription", f"{msg} case={case} got={p2.trace()}", classes=cls)
        got_b = [tuple(e) for e in p2.trace()]
        for exp in alts_b:
            clause = diff(exp, got_b)
            if clause is None:
                break
        if clause is not None:
            return FAIL(
                f"{clause}|{form}:2nd-subscription",
                f"second subscription of the same observable at tick {S2} ({rs['mode']}): case={case} expected={alts_b[0]} got={p2.trace()} first={p.trace()}",
                classes=cls,
            )
    in_vals = [canon(dval(pl)) for _, pl in elems]
    out_vals = [pl for _, k, pl in exp0 if k == "N"]
    boundary = any(c.startswith("b:") for c in cls)
    nontrivial = (bool(out_vals) and out_vals != in_vals) or boundary
    return OK(nontrivial, cls)


# ---------------------------------------------------------------------------------------
# strategies


def pooled(draw, names):
    """Value strategy: half of the cases use a small sub-pool so duplicates / ==-clusters are frequent."""
    if draw(st.integers(0, 1)):
        pool = draw(st.lists(st.sampled_from(list(names)), min_size=1, max_size=4))
        return st.sampled_from(pool)
    return st.sampled_from(list(names))


def draw_timeline(draw, vstrat, max_len, max_dt=3, terms=("C", "C", "E"), min_len=0):
    n = draw(st.sampled_from(list(range(min_len, max_len + 1))))  # flatter than st.integers (which favours 0)
    t = 0
    out = []
    for _ in range(n):
        t += draw(st.integers(0, max_dt))
        out.append([t, "N", draw(vstrat)])
    t += draw(st.integers(0, max_dt))
    k = draw(st.sampled_from(list(terms)))
    out.append([t, k, draw(st.sampled_from(["e1", "e2"])) if k == "E" else None])
    return out


def draw_src(draw, vstrat, max_len, **kw):
    kind = draw(st.sampled_from(["cold", "cold", "hot", "hot", "sync"]))
    tl = draw_timeline(draw, vstrat, max_len, **kw)
    return {"kind": kind, "tl": tl}


def draw_sub(draw, *srcs):
    """Subscription tick: small in half of the cases (hot sources then lose few elements)."""
    hi = 3
    for s in srcs:
        if s is not None and s.get("kind") == "hot":
            hi = max(hi, s["tl"][-1][0])
    if draw(st.integers(0, 1)):
        return draw(st.integers(0, 2))
    return draw(st.integers(0, hi))


def draw_resub(draw, *srcs):
    """~1/3 of the cases: subscribe the same observable a second time (hot sources: overlapping / after dispose only)."""
    hot = any(s is not None and s.get("kind") == "hot" for s in srcs)
    if draw(st.integers(0, 2)) != 0:
        return None
    modes = ["overlap", "dispose"] if hot else ["after", "overlap", "dispose"]
    return {"mode": draw(st.sampled_from(modes)), "d": draw(st.integers(0, 6))}


def draw_clock(draw):
    """About 1/8 of the cases run on HistoricalScheduler (datetime clock, 1 tick = 1 s)."""
    return draw(st.sampled_from([None] * 7 + ["hist"]))


def draw_count(draw, n):
    return draw(st.one_of(st.sampled_from(sorted({0, 1, max(n - 1, 0), n, n + 1, n + 3})), st.integers(0, n + 2)))


def draw_pred(draw, allow_none=False):
    """Predicate spec: mostly-true / mostly-false / balanced hash predicates, truthiness, constants, absent."""
    opts = ["h", "hi", "hi", "lo", "lo", "truthy", "self", "self", "all", "nonep"]
    if allow_none:
        opts.append("absent")
    c = draw(st.sampled_from(opts))
    if c == "absent":
        return None
    if c in ("truthy", "self"):
        return c
    m = draw(st.integers(2, 5))
    if c == "all":
        return {"m": m, "r": list(range(m))}
    if c == "nonep":
        return {"m": m, "r": []}
    if c == "hi":
        m = draw(st.integers(3, 6))
        out = draw(st.integers(0, m - 1))
        return {"m": m, "r": [i for i in range(m) if i != out]}
    if c == "lo":
        m = draw(st.integers(3, 6))
        return {"m": m, "r": [draw(st.integers(0, m - 1))]}
    r = draw(st.lists(st.integers(0, m - 1), min_size=1, max_size=m - 1, unique=True))
    return {"m": m, "r": sorted(r)}


def draw_name_or_absent(draw, names=NAMES):
    """-> ["absent"] | ["v", name]; None is over-represented."""
    c = draw(st.sampled_from(["absent", "none", "v"]))
    if c == "absent":
        return ["absent"]
    if c == "none":
        return ["v", "none"]
    return ["v", draw(st.sampled_from(list(names)))]

