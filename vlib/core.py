"""Core data types shared by the runner and the property modules.

A property module (props/Cxx.py) exposes

    PROPERTY_ID, LEVEL, RULE, ASSUMPTIONS (list[str])
    def checks(tier) -> list[Check]

Each Check is either *generated* (a Hypothesis strategy producing a JSON-able case
description) or *enumerated* (a function yielding JSON-able cases; the runner shards the
enumeration by index).  `run(case) -> Result` builds the real objects from the case,
executes them against /repo's working tree and applies the oracle.
"""
from __future__ import annotations

import hashlib
import json
from dataclasses import dataclass, field
from typing import Any, Callable, Iterable, Optional


@dataclass
class Result:
    ok: bool
    nontrivial: bool = False
    classes: tuple = ()
    msg: str = ""
    sig: str = ""  # root-cause signature of a failure: "<oracle clause>|<culprit names>"
    inconclusive: bool = False  # case discarded (spin guard, budget); never a verdict


def OK(nontrivial: bool = False, classes: Iterable[str] = ()) -> Result:
    return Result(True, bool(nontrivial), tuple(classes))


def FAIL(sig: str, msg: str = "", nontrivial: bool = True, classes: Iterable[str] = ()) -> Result:
    return Result(False, bool(nontrivial), tuple(classes), msg, sig)


def SKIP(reason: str) -> Result:
    return Result(True, False, ("inconclusive:" + reason,), inconclusive=True)


@dataclass
class Check:
    name: str
    run: Callable[[Any], Result]
    strategy: Any = None  # hypothesis strategy (generated checks)
    cases: Optional[Callable[[str], Iterable[Any]]] = None  # enumerated checks: tier -> iterable
    examples: dict = field(default_factory=lambda: {"quick": 300, "thorough": 3000})
    shards: dict = field(default_factory=lambda: {"quick": 1, "thorough": 16})
    exhaustive: bool = False  # enumerated space is complete for the stated bounds
    note: str = ""


class HarnessError(Exception):
    """Raised for anything that is the harness's fault; the runner exits 2."""


def case_hash(check: str, case: Any) -> str:
    s = json.dumps([check, case], sort_keys=True, separators=(",", ":"), default=repr)
    return hashlib.sha1(s.encode()).hexdigest()[:16]
