"""Shared helpers for the time-operator properties C15, C16, C17 (owned by the C15-C17 builder).

Conventions
-----------
* A case is JSON-able: {"clock": "test"|"hist", "s0": subscribe tick, "src": {"kind", "tl"}, ...operator fields}.
  The observable under test is subscribed by a harness action scheduled for tick `s0` (scheduled *after* every
  hot source was created, so a hot message at exactly s0 is not seen by the subscriber).
* `effective(spec, s0)` is the list of [abs_tick, kind, payload] the operator's source subscription receives.
* Reference computations ("sims") are plain loops over that list.  Wherever an operator-internal timer and a source
  notification fall on the same virtual instant the sim calls `ch()`; `outcomes(sim)` enumerates every decision
  vector, i.e. the oracle accepts either order at an exact tie but one order per (timer, instant) - never an
  interleaving inside a same-instant burst (DESIGN section 2, "Same-instant ties").
"""
from __future__ import annotations

from datetime import timedelta

from hypothesis import strategies as st

import reactivex
from reactivex.internal.constants import UTC_ZERO
from reactivex.scheduler import HistoricalScheduler, TimeoutScheduler
from reactivex.testing import TestScheduler

from .core import FAIL, OK, SKIP
from .lab import Lab, conform
from .values import canon, val

CLOCKS = ("test", "hist")
TICK_S = {"test": 1.0, "hist": 0.001}


OTHER_OFFSET = 1000  # ticks: clock of the decoy scheduler used for "arg-other" subscriptions


class RealtimeFallback(Exception):
    """Raised (and recorded) when anything asks for the real-time TimeoutScheduler during a lab run."""


def mk_lab(clock):
    lab = Lab() if clock == "test" else Lab("hist", tick_s=TICK_S["hist"])
    lab.realtime = []  # records of TimeoutScheduler.singleton() calls during the run
    lab.other = None  # decoy scheduler (never started) for "arg-other" mode
    return lab


def sched_setup(lab, case):
    """Scheduler-passing mode of a case -> (operator kwargs, subscribe-time scheduler for Probe.subscribe).

    sub       : operator gets no scheduler, the subscription carries scheduler=lab.sched (inherit).
    arg       : operator gets scheduler=lab.sched, the subscription carries no scheduler.
    arg-other : operator gets scheduler=lab.sched, the subscription carries a *different* virtual scheduler whose clock
                reads OTHER_OFFSET ticks and which is never started: the operator must use the one it was given.
    """
    mode = case.get("sch") or "sub"
    if mode == "sub":
        return {}, "lab"
    if mode == "arg":
        return {"scheduler": lab.sched}, None
    if mode == "arg-other":
        if lab.clock_kind == "test":
            o = TestScheduler()
            o._clock = float(OTHER_OFFSET)
        else:
            o = HistoricalScheduler(UTC_ZERO + _td(lab, OTHER_OFFSET))
        lab.other = o
        return {"scheduler": lab.sched}, o
    raise AssertionError(mode)


def mk_trigger(lab, spec):
    """A duration / throttle / timeout / sampler / fallback observable. kind lib:* = a library factory built WITHOUT a
    scheduler (must inherit the subscribe-time scheduler); its "tl" states what it does relative to its subscription."""
    k = spec["kind"]
    if not k.startswith("lib:"):
        return lab.source(spec)
    if k == "lib:never":
        return reactivex.never()
    if k == "lib:empty":
        return reactivex.empty()
    if k == "lib:return":
        return reactivex.return_value(7)
    if k == "lib:timer":
        return reactivex.timer(lab.rel(spec["tl"][0][0]))
    if k == "lib:interval":
        return reactivex.interval(lab.rel(spec["period"]))
    raise AssertionError(k)


LIB_TRIGGERS = [
    lambda t: {"kind": "lib:never", "tl": []},
    lambda t: {"kind": "lib:empty", "tl": [[0, "C", None]]},
    lambda t: {"kind": "lib:return", "tl": [[0, "N", "n:7"], [0, "C", None]]},
    lambda t: {"kind": "lib:timer", "tl": [[t, "N", "n:0"], [t, "C", None]]},
    lambda t: {"kind": "lib:timer", "tl": [[t, "N", "n:0"], [t, "C", None]]},
]


def _td(lab, ticks):
    return timedelta(microseconds=round(ticks * lab.tick_s * 1e6))


def targ(lab, form, ticks):
    """A time argument for an operator. form: num | float | td (relative) | abs (absolute datetime)."""
    if form == "num":
        return ticks if lab.clock_kind == "test" else ticks * lab.tick_s
    if form == "float":
        return float(ticks) * lab.tick_s
    if form == "td":
        return _td(lab, ticks)
    if form == "abs":
        return UTC_ZERO + _td(lab, ticks)
    raise AssertionError(form)


def tick_datetime(lab, ticks):
    return UTC_ZERO + _td(lab, ticks)


def cv(name):
    return canon(val(name))


def effective(spec, s0):
    """What a subscription made at tick s0 receives: [[abs_tick, kind, payload], ...]."""
    tl = conform(spec["tl"])
    if spec["kind"] == "hot":
        return [[t, k, p] for t, k, p in tl if t > s0]
    return [[s0 + t, k, p] for t, k, p in tl]


def fwd(m):
    t, k, p = m
    if k == "N":
        return [t, "N", cv(p)]
    if k == "E":
        return [t, "E", ["exc", p]]
    return [t, "C", None]


def first_fire(tl):
    """First event of a duration/trigger timeline: (t, kind) or None (never fires)."""
    tl = conform(tl)
    return (tl[0][0], tl[0][1]) if tl else None


def outcomes(sim, limit=256):
    """Enumerate sim(ch) over all binary decision vectors. Returns [(decisions, result)]."""
    res = []
    stack = [()]
    while stack:
        pre = stack.pop()
        used = [0]

        def ch():
            i = used[0]
            used[0] += 1
            return bool(pre[i]) if i < len(pre) else False

        r = sim(ch)
        k = used[0] - len(pre)
        full = tuple(pre) + (0,) * max(k, 0)
        res.append((full[: used[0]], r))
        for j in range(max(k, 0)):
            stack.append(tuple(pre) + (0,) * j + (1,))
        if len(res) > limit:
            break
    return res


def execute(lab, obs, s0, until=None):
    p = lab.probe("p")
    lab.at(s0, lambda: p.subscribe(obs))
    lab.run(until)
    if until is not None:
        p.dispose()
    return p


def with_feedback(obs, src, fb, kinds=None):
    """The consumer pushes into the hot source `src` from inside its own on_next: after it has received the k-th element
    (k in fb) it synchronously makes the source emit element 1000+k (or, with kinds[k] == "E", the error Tagged("fb")).
    The push is re-entrant for the operator under test (it happens inside the operator's call of downstream on_next)."""
    from reactivex import Observable

    from .values import Tagged

    def subscribe(observer, scheduler=None):
        seen = [0]

        def on_next(v):
            observer.on_next(v)
            k = seen[0]
            seen[0] += 1
            if k in fb:
                for o in list(src.observers):
                    if kinds and kinds.get(k) == "E":
                        o.on_error(Tagged("fb"))
                    else:
                        o.on_next(1000 + k)

        return obs.subscribe(on_next, observer.on_error, observer.on_completed, scheduler=scheduler)

    return Observable(subscribe)


def sub_ticks(case):
    """Subscribe ticks of the case: the first subscription and, optionally, a second subscription of the *same* observable."""
    return [case["s0"]] + ([case["s1"]] if case.get("s1") is not None else [])


def execute_all(lab, obs, ticks, until=None, sub="lab"):
    """Subscribe one probe per tick to the same observable object (in the given order), passing `sub` as the
    subscribe-time scheduler ("lab" = lab.sched, None, or a decoy scheduler).  While the lab runs, any request for the
    real-time TimeoutScheduler is recorded in lab.realtime and refused, so nothing can start threads or hang."""
    probes = []
    for i, t in enumerate(ticks):
        p = lab.probe(f"p{i}")
        lab.at(t, (lambda p=p: p.subscribe(obs, scheduler=sub)))
        probes.append(p)
    orig = TimeoutScheduler.__dict__["singleton"]

    def refuse(cls):
        lab.realtime.append(lab.now())
        raise RealtimeFallback("TimeoutScheduler.singleton() requested during a virtual-time run")

    TimeoutScheduler.singleton = classmethod(refuse)
    try:
        lab.run(until)
        while isinstance(lab.escaped, RealtimeFallback) and len(lab.realtime) < 20 and not lab.inconclusive:
            lab.escaped = None  # keep draining so the trace is complete; the record decides the verdict
            lab.run(until)
        if until is not None:
            for p in probes:
                p.dispose()
    finally:
        TimeoutScheduler.singleton = orig
    return probes


def combine(results, ticks):
    """One verdict for all subscriptions: first failure wins (a failure of a later subscription gets its own signature)."""
    for i, r in enumerate(results):
        if r.inconclusive:
            return r
        if not r.ok:
            if i > 0:
                r.sig += ":2nd-subscription"
                r.msg = f"[subscription #{i + 1} of the same observable object, subscribed at tick {ticks[i]}; first at {ticks[0]}] " + r.msg
            return r
    cls = []
    for r in results:
        for c in r.classes:
            if c not in cls:
                cls.append(c)
    if len(results) > 1:
        cls.append("second-subscription")
        cls.append("second-subscription:" + ("same-tick" if ticks[1] == ticks[0] else "later-tick"))
    return OK(any(r.nontrivial for r in results), cls)


def second_sub(draw, s0, limit=None):
    """Strategy helper: None (2 of 3) or a tick >= s0 for a second subscription of the same observable."""
    if draw(st.integers(0, 2)) != 0:
        return None
    k = draw(st.sampled_from([0, 1, 1, 2, 3, 7]))
    if limit is not None:
        k = min(k, limit)
    return s0 + k


def prelude(lab, p, op, case):
    """Common verdict prefix: inconclusive / escaped exception / grammar. Returns a Result or None."""
    if lab.inconclusive:
        return SKIP(lab.inconclusive)
    if getattr(lab, "realtime", None):
        return FAIL(f"realtime-fallback|{op}", f"the real-time TimeoutScheduler was requested at tick(s) {lab.realtime[:5]} although a virtual scheduler was supplied (mode {case.get('sch') or 'sub'}); trace={p.trace()} case={case}")
    if getattr(lab, "other", None) is not None and len(lab.other._queue):
        return FAIL(f"wrong-scheduler|{op}", f"{len(lab.other._queue)} action(s) were scheduled on the subscribe-time scheduler although the operator was given its own; trace={p.trace()} case={case}")
    if lab.escaped is not None:
        e = lab.escaped
        return FAIL(f"escaped:{type(e).__name__}|{op}", f"{e!r} escaped scheduler.start(); case={case}")
    ok, msg = p.grammar_ok()
    if not ok:
        return FAIL(f"grammar|{op}", f"{msg} trace={p.trace()} case={case}")
    return None


def judge(op, case, lab, p, outs, cls=(), nontrivial=False, norm=None):
    """Accept iff the probe's trace equals one of the enumerated outcomes."""
    r = prelude(lab, p, op, case)
    if r is not None:
        return r
    tr = p.trace()
    if norm is not None:
        tr = norm(tr)
    cls = list(cls)
    for dec, exp in outs:
        if tr == exp:
            if dec:
                cls.append("tie")
                cls.append("tie:timer-first" if any(dec) else "tie:source-first")
            return OK(nontrivial, cls)
    exps = [e for _, e in outs]
    uniq = []
    for e in exps:
        if e not in uniq:
            uniq.append(e)
    return FAIL(f"trace|{op}", f"got={tr} expected{' one of' if len(uniq) > 1 else ''}={uniq[:4]} case={case}", classes=cls)


# ---------------------------------------------------------------------------------------
# strategies


def gaps_around(d):
    xs = [0, 0, 1, 2, 3, d, d, d + 1, 2 * d, 2 * d + 1]
    if d >= 1:
        xs += [d - 1, d - 1]
    return st.sampled_from(sorted(set(x for x in xs if x >= 0)) + [0, d])


@st.composite
def sources(draw, d=2, max_len=5, min_len=0, kinds=("cold", "cold", "hot", "sync"), terminals=("C", "C", "E", None), base=0):
    """(s0, sourceSpec): unique int values n:<base+i>, gaps biased to {0, d-1, d, d+1}; hot timelines are absolute."""
    s0 = draw(st.sampled_from([0, 0, 2, 5]))
    kind = draw(st.sampled_from(list(kinds)))
    n = draw(st.integers(min_len, max_len))
    g = gaps_around(d)
    if max_len > 6 and draw(st.integers(0, 1)) == 0:
        # deep (thorough) timelines: half of them dense, so that many elements are pending / inside one window at once
        n = draw(st.integers(max(min_len, 6), max_len))
        g = st.sampled_from([0, 0, 1, 1, 2])
    t = 0
    tl = []
    for i in range(n):
        t += draw(g)
        tl.append([t, "N", f"n:{base + i}"])
    term = draw(st.sampled_from(list(terminals)))
    if term is not None:
        t += draw(g)
        tl.append([t, term, "boom" if term == "E" else None])
    if kind == "hot":
        tl = [[s0 + t, k, p] for t, k, p in tl]
        if draw(st.integers(0, 3)) == 0:
            tl = [[max(0, s0 - draw(st.integers(0, 1))), "N", "n:99"]] + tl
    return s0, {"kind": kind, "tl": tl}


@st.composite
def triggers(draw, max_t=5, kinds=("cold", "cold", "sync"), allow_error=False, allow_never=True, lib=True):
    """A duration / throttle / timeout observable: never | fires (N or C, possibly several) | error first;
    with lib=True one in four is a scheduler-less library factory (timer / empty / return_value / never)."""
    if lib and draw(st.integers(0, 3)) == 0:
        return draw(st.sampled_from(LIB_TRIGGERS))(draw(st.sampled_from([0, 1, 2, 3, max_t])))
    kind = draw(st.sampled_from(list(kinds)))
    shape = draw(st.sampled_from(["never", "C", "N", "NC", "NN", "NNC", "N", "C"] + (["E", "NE"] if allow_error else [])))
    if shape == "never":
        if not allow_never:
            shape = "C"
        else:
            return {"kind": kind, "tl": []}
    t = draw(st.sampled_from([0, 0, 1, 2, 3, max_t]))
    tl = []
    for j, c in enumerate(shape):
        if j:
            t += draw(st.sampled_from([0, 0, 1, 2]))
        tl.append([t, c, "n:7" if c == "N" else ("dur" if c == "E" else None)])
    return {"kind": kind, "tl": tl}


def nelems(spec):
    return sum(1 for m in conform(spec["tl"]) if m[1] == "N")


def sched_modes(draw, other_ok=True):
    """Scheduler-passing mode for operators that take a scheduler argument (see sched_setup)."""
    return draw(st.sampled_from(["sub", "sub", "arg"] + (["arg-other"] if other_ok else ["arg"])))
