"""C35, REAL-TIME half: periodic scheduling on EventLoopScheduler, NewThreadScheduler and CatchScheduler under the
controlled clock of Engine DET (owned by the C31 / C35-real-time builder; props/C35.py appends `checks(tier)`).

Units: the case carries fake MILLISECONDS; the fake clock is read in microseconds.

check 'rt-periodic'  case = {"kind": eventloop|eventloop-eie|newthread|catch-eventloop|catch-newthread, "verdict": bool,
    "t0": ms slept before creating, "period": ms, "pform": "f"|"td", "durs": [ms...] (duration of invocation k = durs[(k-1) % len],
    spent in a cooperative wait on the fake clock), "f": state function, "s0": initial state, "stop": None | ["at", ms, thread]
    (thread 0 = the creating thread, 1 = a second program thread; ms after creation) | ["in", k] (dispose from inside the k-th
    invocation), "raise_at": None | k, "horizon": ms after creation at which the creating thread disposes anyway,
    "sched": see vlib/detrun.py}
check 'rt-interval'  case = {"kind", "t0", "op": interval|timer, "period", "pform", "d", "dform": "f"|"td"|"dt", "sched_at":
    factory|subscribe, "busy": [ms...] (time spent inside on_next, each < period), "stop": None | ["at", ms, thread], "horizon", "sched"}
both: optional "pre": None | ["delay", ms] | ["periodic", ms] - OTHER timed work put on the same scheduler by the creating thread at
    fake time 0 (before the t0 sleep): a zero-duration action due ms after time 0 / a zero-duration periodic action of that period;
    disposed after the horizon dispose.  The work under test is then scheduled from a program thread (not the loop thread) while
    that item is pending, typically with an EARLIER first due time than the pending head.
"""
from __future__ import annotations

from datetime import timedelta, timezone

from hypothesis import strategies as st

import reactivex
import reactivex.observable.interval  # noqa: F401  (lazily imported by reactivex.interval(); import now = same steps in every run)
import reactivex.observable.timer  # noqa: F401
from reactivex.scheduler import CatchScheduler, EventLoopScheduler, NewThreadScheduler, ThreadPoolScheduler, TimeoutScheduler

from vlib import det, detrun
from vlib.core import Check, HarnessError
from vlib.values import Tagged, canon

RULE = (
    "REAL TIME (Engine DET, fake clock) - check 'rt-periodic': schedule_periodic(period, action, state) on EventLoopScheduler "
    "(exit_if_empty False/True), NewThreadScheduler, ThreadPoolScheduler (cooperative executor), TimeoutScheduler (cooperative "
    "Timer threads), CatchScheduler(EventLoopScheduler) and CatchScheduler(NewThreadScheduler) (handler verdict generated); all threads (creator, optional second disposing thread, the library's loop / periodic "
    "threads) are controlled logical threads, time moves only when all are blocked. Period 1..5 ms as float seconds or timedelta, "
    "the k-th invocation spends a generated 0..2*period+1 ms (cooperative wait, so overruns are exercised), state function in "
    "{inc, double, none, const}, stop by dispose() of the returned disposable at a generated time after creation (by the "
    "creator or by another thread; often exactly on a tick instant), from inside the k-th invocation, or only at the horizon; "
    "optionally the action raises at its k-th invocation; 3..8 periods long; every drawn case is run under <=3 drawn effective "
    "preemptions, the enumerated small cases under EVERY schedule with <=1 (quick) / <=2 (thorough) preemptions. Oracle over "
    "the event log: with t0 = creation instant, e(1) = t0+period, e(k+1) = max(e(k)+period, end(k)) [each implementation "
    "re-arms with period minus the time the action took, not below zero]: invocation k starts exactly at e(k) - in particular "
    "never before t0+k*period, never less than period after the previous start and never while the previous one is running "
    "(sig early-tick) and not later either (sig late-tick: 'once per period'); it receives f^(k-1)(s0) (None threaded like any "
    "state); no invocation starts at a later instant than the one at which a dispose() returned (an invocation starting at the "
    "very instant of the dispose is the unordered check-then-invoke race and accepted either way), none after the raising "
    "one; every tick due strictly before the first dispose() began / the raise has happened; the action's exception reaches "
    "the handler exactly once on catch schedulers and escapes the executing thread iff the handler returned False or there is "
    "no handler; nothing else escapes, no deadlock. Check 'rt-interval': reactivex.interval(p) / timer(d, p) (d relative "
    "float/timedelta or absolute datetime in UTC or in a UTC-5 zone, d == p and d != p, d == 0) on the same seven schedulers, scheduler given to the "
    "factory or to subscribe, observer busy for < period inside on_next, subscription disposed at a generated instant or at the "
    "horizon: on_next values are int 0,1,2,... exactly at t0+d+k*p, none at an instant later than a returned dispose, all ticks "
    "due before the dispose delivered, no terminal event, nothing escapes. Both checks, dimension 'pre' (round 8): in about half "
    "the drawn cases (and in enumerated cases on the event-loop kinds) the creating thread has, at fake time 0, already put OTHER "
    "timed work on the same scheduler - a zero-duration action due 1..30 ms later or a slower zero-duration periodic action - so "
    "that the work under test is scheduled from a program thread (not the loop thread) while the shared loop is parked on a "
    "later deadline, usually with an earlier first due time than the pending head; the oracle is unchanged (zero-duration foreign "
    "work cannot move e(k)), the foreign work itself is not judged and is disposed after the horizon dispose. Non-trivial (both): >=3 ticks and a dispose or "
    "raise strictly inside the run (before the horizon)."
)
ASSUMPTIONS = [
    "real-time half: the other pending work of dimension 'pre' takes zero fake time, so 'once per period, exactly at e(k)' still binds the work under test; its due time is clamped so that a cancelled leftover drains inside the post-horizon margin",
    "real-time half: periods >= 1 ms; the fake clock moves only when every controlled thread is blocked, so tick instants are exact and 'later instant' is well defined",
    "real-time half: a tick starting at the same fake instant as a concurrent dispose() is not ordered (unlocked check-then-invoke in all three implementations, documented as best effort)",
    "real-time half: interval/timer observers stay busy for less than one period (overrun behaviour of timer(d, p) is not part of the statement)",
    "real-time half: bounds <=2 program threads, <=8 periods, <=3 drawn / <=1-2 exhaustive preemptions (line-level yield points, CPython GIL atomicity)",
]

KINDS = ["eventloop", "eventloop-eie", "newthread", "catch-eventloop", "catch-newthread", "threadpool", "timeout"]
_F = {
    "inc": lambda s: (s or 0) + 1,
    "double": lambda s: 1 if s is None else 2 * s,
    "none": lambda s: None,
    "const": lambda s: s,
}
_S0 = {"i0": 0, "i1": 1, "none": None}
_MARGIN_MS = 12  # how far past the horizon a run may go before it is cut (periodic work that does not stop)


def _make(kind, verdict, handled):
    base = kind.split("-", 1)[1] if kind.startswith("catch-") else kind
    if base == "eventloop":
        inner = EventLoopScheduler()
    elif base == "eventloop-eie":
        inner = EventLoopScheduler(exit_if_empty=True)
    elif base == "newthread":
        inner = NewThreadScheduler()
    elif base == "threadpool":  # a NewThreadScheduler whose threads are pool futures (cooperative executor): same periodic loop
        inner = ThreadPoolScheduler(3)
    elif base == "timeout":  # PeriodicScheduler's self-rescheduling closure on one Timer thread per tick
        inner = TimeoutScheduler()
    else:
        raise HarnessError(f"bad kind {kind}")
    bad = det.audit_object(inner)
    if bad:
        raise HarnessError(f"scheduler carries real locks: {bad}")
    if kind.startswith("catch-"):

        def handler(ex):
            handled.append(ex)
            det.log(("handler", detrun.now_us()))
            return verdict

        return CatchScheduler(inner, handler)
    return inner


def _rel(ms, form):
    return ms / 1000.0 if form == "f" else timedelta(milliseconds=ms)


def _stopper_threads(case, ctx, create):
    """The program threads shared by both checks: thread 0 creates (after t0 ms), optionally disposes at stop, disposes at the
    horizon; thread 1 (only for stop = ["at", ms, 1]) waits for the creation and disposes ms later."""
    stop, horizon = case["stop"], case["horizon"]
    created = det.CEvent()
    log, us = det.log, detrun.now_us

    def dispose(tag):
        log(("dcall", tag, us()))
        ctx["d"].dispose()
        log(("dret", tag, us()))

    ctx["dispose"] = dispose
    pre = case.get("pre")

    def pre_action(scheduler, state=None):
        log(("pre", us()))

    def pre_periodic(state):
        log(("pre", us()))
        return state

    def t0():
        if pre is not None:  # other timed work already pending on the same scheduler when the work under test is scheduled
            ms = min(pre[1], case["t0"] + case["horizon"] + _MARGIN_MS - 2)  # a cancelled leftover must drain inside the margin
            if pre[0] == "delay":
                ctx["pre_d"] = ctx["sched"].schedule_relative(ms / 1000.0, pre_action)
            else:
                ctx["pre_d"] = ctx["sched"].schedule_periodic(min(ms, _MARGIN_MS - 2) / 1000.0, pre_periodic, state=0)
        detrun.sleep(case["t0"] / 1000.0)
        log(("create", us()))
        ctx["d"] = create()
        log(("created", us()))
        created.set()
        left = horizon
        if stop is not None and stop[0] == "at" and stop[2] == 0:
            detrun.sleep(stop[1] / 1000.0)
            dispose("stop")
            left = horizon - stop[1]
        detrun.sleep(left / 1000.0)
        dispose("horizon")
        if "pre_d" in ctx:
            ctx["pre_d"].dispose()

    def t1():
        created.wait(1.0)
        detrun.sleep(stop[1] / 1000.0)
        if "d" in ctx:
            dispose("stop")

    if stop is not None and stop[0] == "at" and stop[2] == 1:
        return [t0, t1]
    return [t0]


def _common_prefix(res):
    if res.deadlock:
        return ("deadlock", repr(res.deadlock))
    return None


def _events(res):
    ev = {"create": None, "created": None, "dcall": [], "dret": [], "tick": [], "tock": {}, "handler": []}
    for k, (step, tid, pl) in enumerate(res.events):
        kind = pl[0]
        if kind in ("create", "created"):
            ev[kind] = (k, pl[1])
        elif kind in ("dcall", "dret"):
            ev[kind].append((k, pl[2], pl[1]))
        elif kind == "tick":
            ev["tick"].append((k, tid, pl[1], pl[2], pl[3]))  # pos, tid, index, t_us, payload
        elif kind == "tock":
            ev["tock"][pl[1]] = (k, pl[2])
        elif kind == "handler":
            ev["handler"].append(k)
    return ev


def _pre_classes(case, first_ms):
    """coverage classes of the 'other work already pending' dimension; first_ms = first due time of the work under test after creation"""
    pre = case.get("pre")
    if pre is None:
        return set()
    cl = {"pre-pending:" + pre[0]}
    if pre[1] > case["t0"] + first_ms > case["t0"]:  # due strictly in the future and strictly before the pending head
        cl.add("scheduled-before-pending-head")
        if "eventloop" in case["kind"]:
            cl.add("scheduled-before-pending-head:shared-loop")
    return cl


def _after_dispose(ev, what):
    """An invocation/emission that starts at a LATER fake instant than a returned dispose()."""
    cl = set()
    for (kd, td, tag) in ev["dret"]:
        for (k, tid, i, t, _) in ev["tick"]:
            if k > kd:
                if t > td:
                    return (f"{what}-after-dispose", f"{what} #{i} started at {t}us, dispose() ({tag}) had returned at {td}us"), cl
                cl.add("dispose-race-tick-wins")
    return None, cl


# ------------------------------------------------------------------------------------------------ rt-periodic
def _build_periodic(case):
    handled, raised, inv = [], [], []
    sched = _make(case["kind"], case["verdict"], handled)
    ctx = {"handled": handled, "raised": raised, "inv": inv, "sched": sched}
    f, durs, stop, raise_at = _F[case["f"]], case["durs"], case["stop"], case["raise_at"]
    log, us = det.log, detrun.now_us

    def action(state):
        k = len(inv) + 1
        inv.append(k)
        log(("tick", k, us(), canon(state)))
        det.yield_point("tick")
        if stop is not None and stop[0] == "in" and stop[1] == k:
            ctx["dispose"]("in")
        dur = durs[(k - 1) % len(durs)]
        if dur:
            detrun.sleep(dur / 1000.0)
        log(("tock", k, us()))
        if raise_at == k:
            ex = Tagged(f"tick{k}")
            raised.append(ex)
            raise ex
        return f(state)

    def create():
        return sched.schedule_periodic(_rel(case["period"], case["pform"]), action, state=_S0[case["s0"]])

    return _stopper_threads(case, ctx, create), ctx


def _judge_periodic(case, ctx, res):
    cl = {case["kind"], "f:" + case["f"]} | _pre_classes(case, case["period"])
    bad = _common_prefix(res)
    if bad:
        return bad, False, cl
    ev = _events(res)
    if ev["create"] is None or ev["created"] is None:
        e = res.exceptions.get(0)
        return ("escaped:" + type(e).__name__, f"schedule_periodic did not return: {e!r}"), False, cl
    p = case["period"] * 1000
    t0 = ev["create"][1]
    ticks = ev["tick"]
    stop, raise_at, durs = case["stop"], case["raise_at"], case["durs"]
    f, s = _F[case["f"]], _S0[case["s0"]]
    # ---- nothing after dispose / raise
    bad, c2 = _after_dispose(ev, "invocation")
    cl |= c2
    if bad:
        return bad, True, cl
    if raise_at is not None and len(ticks) > raise_at:
        return ("invocation-after-raise", f"{len(ticks)} invocations although #{raise_at} raised"), True, cl
    # ---- tick instants, serial execution, state threading
    expect = t0 + p
    prev_end = None
    for n, (k, tid, i, t, state) in enumerate(ticks):
        if i != n + 1:
            raise HarnessError(f"tick numbering {i} != {n + 1}")
        if n and (ticks[n - 1][2] not in ev["tock"] or ev["tock"][ticks[n - 1][2]][0] > k):
            return ("early-tick", f"invocation #{i} started at {t}us while #{i - 1} was still running"), True, cl
        if t < expect:
            why = f"before t0+{i}*period" if t < t0 + i * p else ("less than a period after the previous start" if n and t < ticks[n - 1][3] + p else "before the previous invocation ended")
            return ("early-tick", f"invocation #{i} started at {t}us, expected {expect}us ({why}); t0={t0} period={p}us"), True, cl
        if t > expect:
            return ("late-tick", f"invocation #{i} started at {t}us, expected {expect}us; t0={t0} period={p}us"), True, cl
        if state != canon(s):
            return ("state-threading", f"invocation #{i} got state {state}, expected {canon(s)}"), True, cl
        s = f(s)
        end = ev["tock"].get(i)
        if end is None:
            break  # cut inside the last invocation (horizon)
        if end[1] - t > p:
            cl.add("overrun")
        expect = max(t + p, end[1])
    n = len(ticks)
    # ---- nothing missing: every reference tick due strictly before the first dispose began (and up to the raise) happened
    t_stop = min(t for (_, t, _) in ev["dcall"]) if ev["dcall"] else None
    if t_stop is not None:
        lo, e = 0, t0 + p
        while e < t_stop and lo < 64:
            lo += 1
            d = durs[(lo - 1) % len(durs)] * 1000
            e = max(e + p, e + d)
        if raise_at is not None:
            lo = min(lo, raise_at)
        if n < lo:
            return ("missing-ticks", f"{n} invocations, at least {lo} were due before the dispose at {t_stop}us (t0={t0}, period={p}us)"), True, cl
    # ---- exceptions
    raised, handled = ctx["raised"], ctx["handled"]
    esc = list(res.exceptions.values())
    catch = case["kind"].startswith("catch-")
    if catch and [id(x) for x in handled] != [id(x) for x in raised]:
        return ("handler-calls", f"handler saw {handled}, raised {raised}"), True, cl
    want = [] if (catch and case["verdict"]) else raised
    if sorted(id(x) for x in esc) != sorted(id(x) for x in want):
        other = [e for e in esc if not any(e is w for w in want)]
        if other:
            return (f"escaped:{type(other[0]).__name__}", f"{other[0]!r} escaped a thread; all={res.exceptions}"), True, cl
        if case["kind"] == "threadpool" and not esc:
            cl.add("exception-kept-in-pool-future")  # a pool job's exception is stored in its Future (executor semantics), no thread dies
        else:
            return ("exception-swallowed", f"action raised {raised} but it did not surface (handler={'returned ' + str(case['verdict']) if catch else 'none'})"), True, cl
    if raised:
        cl.add("raise-reached")
    if res.horizon_reached:
        return ("never-stops", f"periodic work still pending {_MARGIN_MS}ms after the horizon dispose; {n} invocations"), True, cl
    # ---- classes / non-trivial
    first_stop = None
    for (k, t, tag) in ev["dcall"]:
        if tag != "horizon":
            first_stop = t
            cl.add("dispose-" + tag)
            if (t - t0) % p == 0:
                cl.add("dispose-tie-with-tick")
    inside = bool(raised) or (first_stop is not None and first_stop < t0 + case["horizon"] * 1000)
    if stop is not None and stop[0] == "at" and stop[2] == 1:
        cl.add("dispose-other-thread")
    return None, (n >= 3 and inside), cl


def _run_periodic(case):
    kw = {"time_limit_s": (case["t0"] + case["horizon"] + _MARGIN_MS) / 1000.0, "max_steps": 60000}
    return detrun.drive(
        case, lambda: _build_periodic(case), lambda ctx, res: _judge_periodic(case, ctx, res), culprit=case["kind"], kw=kw,
        accept=lambda res: not res.budget_exceeded,
    )  # fmt: skip


# ------------------------------------------------------------------------------------------------ rt-interval
def _build_interval(case):
    from reactivex.scheduler import CurrentThreadScheduler
    from reactivex.scheduler.currentthreadscheduler import CurrentThreadSchedulerSingleton

    # subscribe() goes through the per-thread CurrentThreadScheduler singleton and its thread-local trampoline: start every run
    # from the same state (empty per-thread maps, per-class map present) so that pooled OS threads can be reused across runs
    CurrentThreadScheduler._global.clear()
    CurrentThreadSchedulerSingleton._local = type(CurrentThreadSchedulerSingleton._local)()
    CurrentThreadScheduler.singleton()
    handled, inv, terminal = [], [], []
    sched = _make(case["kind"], True, handled)
    ctx = {"handled": handled, "inv": inv, "terminal": terminal, "sched": sched}
    busy = case["busy"]
    log, us = det.log, detrun.now_us

    def on_next(v):
        k = len(inv) + 1
        inv.append(k)
        log(("tick", k, us(), canon(v)))
        det.yield_point("on_next")
        b = busy[(k - 1) % len(busy)] if busy else 0
        if b:
            detrun.sleep(b / 1000.0)
        log(("tock", k, us()))

    def create():
        p_arg = _rel(case["period"], case["pform"])
        s_factory = sched if case["sched_at"] == "factory" else None
        if case["op"] == "interval":
            obs = reactivex.interval(p_arg, scheduler=s_factory)
        else:
            d = case["d"]
            if case["dform"] == "dt":
                d_arg = det.now() + timedelta(milliseconds=d)
            elif case["dform"] == "dtz":  # the same absolute instant expressed in a zone west of UTC
                d_arg = (det.now() + timedelta(milliseconds=d)).astimezone(timezone(timedelta(hours=-5)))
            else:
                d_arg = _rel(d, case["dform"])
            obs = reactivex.timer(d_arg, p_arg, scheduler=s_factory)
        return obs.subscribe(
            on_next=on_next,
            on_error=lambda e: terminal.append(["E", repr(e)]),
            on_completed=lambda: terminal.append(["C"]),
            scheduler=None if case["sched_at"] == "factory" else sched,
        )

    return _stopper_threads(case, ctx, create), ctx


def _judge_interval(case, ctx, res):
    cl = {case["kind"], case["op"]} | _pre_classes(case, case["period"] if case["op"] == "interval" else case["d"])
    bad = _common_prefix(res)
    if bad:
        return bad, False, cl
    if res.exceptions:
        tid, e = sorted(res.exceptions.items())[0]
        return (f"escaped:{type(e).__name__}", f"thread {tid} ({res.names.get(tid)}): {e!r}"), True, cl
    ev = _events(res)
    p = case["period"] * 1000
    first = p if case["op"] == "interval" else case["d"] * 1000
    t0 = ev["create"][1]
    ticks = ev["tick"]
    for n, (k, tid, i, t, v) in enumerate(ticks):
        exp_t = t0 + first + n * p
        if t != exp_t:
            return ("early-tick" if t < exp_t else "late-tick", f"emission #{n} at {t}us, expected {exp_t}us (t0={t0}, first={first}, period={p})"), True, cl
        if v != ["int", n]:
            return ("value", f"emission #{n} is {v}, expected int {n}"), True, cl
    n = len(ticks)
    bad, c2 = _after_dispose(ev, "emission")
    cl |= c2
    if bad:
        return bad, True, cl
    t_stop = min(t for (_, t, _) in ev["dcall"]) if ev["dcall"] else None
    if t_stop is not None:
        lo = 0
        while t0 + first + lo * p < t_stop and lo < 64:
            lo += 1
        if n < lo:
            return ("missing-ticks", f"{n} emissions, at least {lo} were due before the dispose at {t_stop}us (t0={t0}, first={first}, period={p})"), True, cl
    if ctx["terminal"]:
        return ("terminal-event", f"{ctx['terminal']}"), True, cl
    if ctx["handled"]:
        return ("escaped:handler", f"catch handler saw {ctx['handled']}"), True, cl
    if res.horizon_reached:
        return ("never-stops", f"timer work still pending {_MARGIN_MS}ms after the horizon dispose; {n} emissions"), True, cl
    first_stop = None
    for (k, t, tag) in ev["dcall"]:
        if tag != "horizon":
            first_stop = t
            cl.add("disposed")
            if t - t0 >= first and (t - t0 - first) % p == 0:
                cl.add("dispose-tie-with-tick")
    if case["op"] == "timer":
        cl.add("timer:d==p" if (case["d"] == case["period"] and case["dform"] == case["pform"]) else "timer:d!=p")
        cl.add("dform:" + case["dform"])
    if any(case["busy"]):
        cl.add("busy-observer")
    inside = first_stop is not None and first_stop < t0 + case["horizon"] * 1000
    return None, (n >= 3 and inside), cl


def _run_interval(case):
    kw = {"time_limit_s": (case["t0"] + case["horizon"] + _MARGIN_MS) / 1000.0, "max_steps": 60000}
    return detrun.drive(
        case, lambda: _build_interval(case), lambda ctx, res: _judge_interval(case, ctx, res), culprit=f"{case['op']}|{case['kind']}", kw=kw,
        accept=lambda res: not res.budget_exceeded,
    )  # fmt: skip


# ------------------------------------------------------------------------------------------------ strategies
def _stops(p, nper):
    """dispose instants (ms after creation): on a tick, just after one, anywhere; by the creator or another thread"""
    ks = st.one_of(st.integers(3, nper), st.integers(3, nper), st.integers(1, nper))
    at = st.one_of(ks.map(lambda k: k * p), ks.map(lambda k: k * p), ks.map(lambda k: k * p + 1), st.integers(1, nper * p))
    return st.tuples(st.just("at"), at, st.integers(0, 1)).map(list)


def _pres(p):
    """other timed work pending on the same scheduler: a single delayed action (due 1..30 ms after time 0) or a slower periodic"""
    delay = st.tuples(st.just("delay"), st.integers(1, 30)).map(list)
    slow = st.tuples(st.just("periodic"), st.sampled_from([p + 1, 2 * p, 2 * p + 1, 3 * p, 10])).map(list)
    return st.one_of(st.none(), st.none(), delay, delay, slow)


def _periodic_cases(sched):
    def build(pn):
        p, nper = pn
        durs = st.lists(st.sampled_from([0, 0, 0, 1, max(0, p - 1), p, p + 2, 2 * p + 1]), min_size=1, max_size=3)
        stop = st.one_of(st.none(), _stops(p, nper), _stops(p, nper), st.tuples(st.just("in"), st.one_of(st.integers(3, nper), st.integers(1, nper))).map(list))
        return st.fixed_dictionaries(
            {
                "kind": st.sampled_from(KINDS),
                "verdict": st.booleans(),
                "t0": st.sampled_from([0, 0, 1, 7]),
                "period": st.just(p),
                "pform": st.sampled_from(["f", "td"]),
                "durs": durs,
                "f": st.sampled_from(sorted(_F)),
                "s0": st.sampled_from(sorted(_S0)),
                "stop": stop,
                "raise_at": st.one_of(st.none(), st.none(), st.integers(1, nper), st.integers(3, nper)),
                "horizon": st.sampled_from([nper * p, nper * p + 1]),
                "pre": _pres(p),
                "sched": sched,
            }
        )

    return st.tuples(st.integers(1, 5), st.integers(3, 8)).flatmap(build)


def _interval_cases(sched):
    def build(pn):
        p, nper = pn
        busy = st.lists(st.sampled_from([0, 0, 0, 1 if p > 1 else 0, p - 1]), min_size=0, max_size=3)
        return st.fixed_dictionaries(
            {
                "kind": st.sampled_from(KINDS),
                "t0": st.sampled_from([0, 0, 2, 11]),
                "op": st.sampled_from(["interval", "timer", "timer"]),
                "period": st.just(p),
                "pform": st.sampled_from(["f", "td"]),
                "d": st.one_of(st.just(p), st.integers(0, 7)),
                "dform": st.sampled_from(["f", "td", "dt", "dtz"]),
                "sched_at": st.sampled_from(["factory", "subscribe"]),
                "busy": busy,
                "stop": st.one_of(st.none(), _stops(p, nper), _stops(p, nper)),
                "horizon": st.sampled_from([nper * p + 7, nper * p + 8]),
                "pre": _pres(p),
                "sched": sched,
            }
        )

    return st.tuples(st.integers(1, 5), st.integers(3, 8)).flatmap(build)


def _enum(tier):
    K = 1 if tier == "quick" else 2
    sched = {"mode": "all", "K": K}
    base = {"verdict": True, "t0": 0, "period": 2, "pform": "f", "f": "inc", "s0": "i0", "raise_at": None, "sched": sched}
    kinds = KINDS if tier == "quick" else ["eventloop", "newthread", "catch-eventloop"]
    for kind in kinds:
        for stop, durs, horizon in (
            (["at", 6, 1], [0], 8),  # dispose by another thread exactly on tick 3
            (["at", 9, 0], [3], 12),  # overrunning action (ticks at 2, 5, 8, 11), dispose while #3 is running
            (["in", 3], [0, 1], 8),
        ):
            if tier != "quick":
                stop, horizon = [stop[0], stop[1] - (2 if stop[0] == "at" else 1)] + stop[2:], horizon - 2
            yield {**base, "kind": kind, "stop": stop, "durs": durs, "horizon": horizon}
        if "eventloop" in kind and (tier == "quick" or kind == "eventloop"):  # scheduled from the creator thread while a later-due item is pending
            for pre in (["periodic", 5],) if kind.startswith("catch-") else (["delay", 9],):
                yield {**base, "kind": kind, "t0": 1, "pre": pre, "stop": ["at", 6 if tier == "quick" else 4, 1], "durs": [0], "horizon": 8 if tier == "quick" else 6}
        for verdict in (True, False):
            if kind.startswith("catch-") or verdict:
                r = 3 if tier == "quick" else 2
                yield {**base, "kind": kind, "verdict": verdict, "stop": None, "durs": [0], "raise_at": r, "horizon": 2 * r + 2}


def _enum_interval(tier):
    K = 1 if tier == "quick" else 2
    sched = {"mode": "all", "K": K}
    kinds = KINDS if tier == "quick" else ["eventloop", "newthread"]
    for kind in kinds:
        for op, d in (("interval", 2), ("timer", 1)):
            yield {
                "kind": kind, "t0": 0, "op": op, "period": 2, "pform": "f", "d": d, "dform": "f", "sched_at": "factory", "busy": [],
                "stop": ["at", (6 if op == "interval" else 5) - (0 if tier == "quick" else 2), 1], "horizon": 8 if tier == "quick" else 6, "sched": sched,
            }  # fmt: skip
        if kind in ("eventloop", "catch-eventloop"):
            yield {
                "kind": kind, "t0": 1, "op": "timer", "period": 2, "pform": "f", "d": 1, "dform": "f", "sched_at": "subscribe", "busy": [], "pre": ["delay", 8],
                "stop": ["at", 5 if tier == "quick" else 3, 0], "horizon": 8 if tier == "quick" else 6, "sched": sched,
            }  # fmt: skip


def checks(tier):
    sched = detrun.sched_strategy(3)
    return [
        Check("rt-periodic-enum", _run_periodic, cases=_enum, shards={"quick": 8, "thorough": 16}, exhaustive=True),
        Check("rt-interval-enum", _run_interval, cases=_enum_interval, shards={"quick": 8, "thorough": 16}, exhaustive=True),
        Check("rt-periodic", _run_periodic, strategy=_periodic_cases(sched), examples={"quick": 2000, "thorough": 16 * 6000}, shards={"quick": 8, "thorough": 16}),
        Check("rt-interval", _run_interval, strategy=_interval_cases(sched), examples={"quick": 1000, "thorough": 16 * 4000}, shards={"quick": 8, "thorough": 16}),
    ]
