"""Engine VT: the virtual-time lab.

Lab owns a counting TestScheduler / HistoricalScheduler, logged sources, probes and
logged/armable user callbacks.  All times reported by the lab are *ticks* (numbers):
on TestScheduler a tick is the scheduler's unit; on HistoricalScheduler a tick is
`tick_s` seconds after UTC_ZERO.

Timeline (JSON-able): list of [t, kind, payload] with t >= 0 non-decreasing (relative to
subscription for cold sources, absolute for hot sources), kind in {"N","E","C"},
payload = value name (N) / error tag (E) / None (C).  Timelines may be non-conforming
(events after a terminal) — sources emit them verbatim.
"""
from __future__ import annotations

from datetime import datetime, timedelta

from hypothesis import strategies as st

import reactivex
from reactivex import Observable, abc
from reactivex.disposable import CompositeDisposable, Disposable
from reactivex.internal.constants import UTC_ZERO
from reactivex.scheduler import HistoricalScheduler, VirtualTimeScheduler
from reactivex.testing import TestScheduler

from .core import HarnessError
from .values import NAMES, Tagged, canon, stable_hash, val


class SpinGuard(BaseException):
    """>= spin_limit actions at one virtual instant: case is inconclusive (C29's business)."""


class BudgetExceeded(BaseException):
    """Work budget exhausted (runaway pipeline). BaseException so no `except Exception` eats it."""


class _Counting:
    _lab = None

    def schedule_absolute(self, duetime, action, state=None):
        lab = self._lab

        def wrapped(s, st_=None):
            lab._on_action()
            return action(s, st_)

        return super().schedule_absolute(duetime, wrapped, state)


class LabTestScheduler(_Counting, TestScheduler):
    pass


class LabHistoricalScheduler(_Counting, HistoricalScheduler):
    pass


class Lab:
    def __init__(self, clock="test", tick_s=1.0, spin_limit=90, budget=20000):
        self.clock_kind = clock
        self.tick_s = tick_s
        if clock == "test":
            self.sched = LabTestScheduler()
        elif clock == "hist":
            self.sched = LabHistoricalScheduler()
        else:
            raise HarnessError(f"unknown clock {clock}")
        self.sched._lab = self
        # The library bumps a virtual clock after MAX_SPINNING (100) consecutive same-instant dequeues, counting
        # cancelled items the lab cannot see; a bump would shift every later tick and turn into a false alarm in
        # time-exact oracles. Lab runs therefore disable the bump (C29, which is about that path, does not use Lab)
        # and rely on the lab's own guards: SpinGuard (spin_limit invoked actions at one instant) and the work budget.
        import reactivex.scheduler.virtualtimescheduler as _vts

        _vts.MAX_SPINNING = 10**9
        self.spin_limit = spin_limit
        self.budget = budget
        self.work = 0
        self.seq = 0
        self._last_clock = None
        self._same = 0
        self.max_same = 0
        self.sources = []
        self.probes = []
        self.cb_log = []  # [tick, seq, slot, canon(args)]
        self.cb_count = {}
        self.arm = {}  # slot -> set of invocation indices at which to raise
        self.injected = []  # Tagged exceptions raised by armed callbacks
        self._obs_ids = {}
        self.escaped = None  # exception that escaped run()
        self.inconclusive = None

    # -- time ---------------------------------------------------------------------------
    def now(self):
        c = self.sched._clock
        if isinstance(c, datetime):
            x = (c - UTC_ZERO).total_seconds() / self.tick_s
        else:
            x = float(c)
        r = round(x)
        return r if abs(x - r) < 1e-9 else x

    def rel(self, ticks):
        """A relative time argument in the scheduler's native representation."""
        if self.clock_kind == "hist":
            return timedelta(seconds=ticks * self.tick_s)
        return ticks

    def abs(self, ticks):
        if self.clock_kind == "hist":
            return UTC_ZERO + timedelta(seconds=ticks * self.tick_s)
        return ticks

    def next_seq(self):
        self.seq += 1
        return self.seq

    def step(self):
        self.work += 1
        if self.work > self.budget:
            raise BudgetExceeded()

    def _on_action(self):
        self.step()
        c = self.sched._clock
        if c == self._last_clock:
            self._same += 1
        else:
            self._last_clock = c
            self._same = 1
        if self._same > self.max_same:
            self.max_same = self._same
        if self._same >= self.spin_limit:
            raise SpinGuard()

    # -- ids ----------------------------------------------------------------------------
    def obs_id(self, o):
        k = id(o)
        if k not in self._obs_ids:
            self._obs_ids[k] = (len(self._obs_ids), o)  # keep o alive so ids are not reused
        return self._obs_ids[k][0]

    def canon(self, x):
        return canon(x, self.obs_id)

    # -- sources ------------------------------------------------------------------------
    def cold(self, timeline, name=None, sync=False):
        s = LoggedCold(self, timeline, name or f"c{len(self.sources)}", sync)
        self.sources.append(s)
        return s

    def hot(self, timeline, name=None):
        s = LoggedHot(self, timeline, name or f"h{len(self.sources)}")
        self.sources.append(s)
        return s

    def source(self, spec, name=None):
        """spec: {"kind": "cold"|"hot"|"sync", "tl": timeline}"""
        k = spec["kind"]
        if spec.get("bad_dispose"):
            s = self.source({kk: vv for kk, vv in spec.items() if kk != "bad_dispose"}, name)
            s.bad_dispose = True  # unsubscribing raises Tagged("teardown:<name>") after the close is logged
            return s
        if k == "cold":
            return self.cold(spec["tl"], name)
        if k == "sync":
            return self.cold(spec["tl"], name, sync=True)
        if k == "hot":
            return self.hot(spec["tl"], name)
        if k == "faulty":  # cold source whose subscribe function raises AFTER arranging its emissions
            s = self.cold(spec["tl"], name)
            s.raise_in_subscribe = spec.get("tag", "subfault")
            return s
        if k == "hotfaulty":  # hot source that registers the observer and then raises in subscribe
            s = self.hot(spec["tl"], name)
            s.raise_in_subscribe = spec.get("tag", "subfault")
            return s
        raise HarnessError(f"source kind {k}")

    def reenter(self):
        """Make the first hot source that still has pending messages emit its next one NOW (re-entrantly, from inside
        whatever callback is running). Used to model a subscriber whose terminal handler pokes its source."""
        for s in self.sources:
            if isinstance(s, LoggedHot) and s.fire_next():
                return True
        return False

    # -- callbacks ----------------------------------------------------------------------
    def fn(self, slot, f):
        """Wrap a pure function: log each call, raise Tagged when armed."""

        def wrapped(*args):
            self.step()
            k = self.cb_count.get(slot, 0)
            self.cb_count[slot] = k + 1
            self.cb_log.append([self.now(), self.next_seq(), slot, [self.canon(a) for a in args]])
            if k in self.arm.get(slot, ()):
                e = Tagged(f"inj:{slot}:{k}")
                self.injected.append(e)
                raise e
            return f(*args)

        wrapped.__name__ = f"cb_{slot}"
        return wrapped

    # -- probes -------------------------------------------------------------------------
    def probe(self, name="p", **kw):
        p = Probe(self, name, **kw)
        self.probes.append(p)
        return p

    def at(self, tick, f):
        """Schedule harness action f() at absolute tick."""
        self.sched.schedule_absolute(self.abs(tick), lambda s, st_=None: f())

    def run(self, until=None):
        """Drain the scheduler. Returns None or the name of an inconclusive condition.
        Exceptions escaping scheduler.start() are stored in self.escaped (and not re-raised)."""
        try:
            if until is None:
                # VirtualTimeScheduler.start, not TestScheduler.start (which would inject its own
                # create/subscribe/dispose actions at ticks 100/200/1000)
                VirtualTimeScheduler.start(self.sched)
            else:
                self.sched.advance_to(self.abs(until))
        except SpinGuard:
            self.inconclusive = "spin"
        except BudgetExceeded:
            self.inconclusive = "budget"
        except RecursionError:
            self.inconclusive = "recursion"
        except Exception as e:  # noqa
            self.escaped = e
            self.sched._is_enabled = False
        return self.inconclusive

    def open_subscriptions(self):
        return [(s.name, i) for s in self.sources for i, (a, b) in enumerate(s.subs) if b is None]


class _Logged(Observable):
    def __init__(self, lab, timeline, name):
        super().__init__()
        self.lab = lab
        self.timeline = [list(m) for m in timeline]
        self.name = name
        self.raise_in_subscribe = None  # tag: subscribe raises Tagged(tag) after wiring (fault injection)
        self.bad_dispose = False  # unsubscribing raises after the close is logged (fault injection)
        self.subs = []  # [sub_tick, unsub_tick|None]
        self.sub_seq = []  # [sub_seq, unsub_seq|None]
        self.emitted = 0

    def _emit(self, observer, kind, payload):
        self.lab.step()
        self.emitted += 1
        if kind == "N":
            observer.on_next(val(payload))
        elif kind == "E":
            observer.on_error(Tagged(payload))
        elif kind == "C":
            observer.on_completed()
        else:
            raise HarnessError(f"bad kind {kind}")

    def _open(self):
        self.lab.step()
        self.subs.append([self.lab.now(), None])
        self.sub_seq.append([self.lab.next_seq(), None])
        return len(self.subs) - 1

    def _close(self, idx):
        if self.subs[idx][1] is None:
            self.subs[idx][1] = self.lab.now()
            self.sub_seq[idx][1] = self.lab.next_seq()
            if self.bad_dispose:
                raise Tagged(f"teardown:{self.name}")


class LoggedCold(_Logged):
    def __init__(self, lab, timeline, name, sync=False):
        super().__init__(lab, timeline, name)
        self.sync = sync

    def _subscribe_core(self, observer, scheduler=None):
        idx = self._open()
        comp = CompositeDisposable()
        lab = self.lab
        closed = [False]

        def mk(kind, payload):
            def action(s, st_=None):
                if not closed[0]:
                    self._emit(observer, kind, payload)
                return Disposable()

            return action

        def dispose():
            closed[0] = True
            comp.dispose()
            self._close(idx)

        d = Disposable(dispose)
        for t, kind, payload in self.timeline:
            if self.sync and t == 0:
                if not closed[0]:
                    self._emit(observer, kind, payload)
            else:
                comp.add(lab.sched.schedule_relative(lab.rel(t), mk(kind, payload)))
        if self.raise_in_subscribe:
            raise Tagged(self.raise_in_subscribe)
        return d


class LoggedHot(_Logged):
    def __init__(self, lab, timeline, name):
        super().__init__(lab, timeline, name)
        self.observers = []
        self.fired = [False] * len(self.timeline)
        for i, (t, kind, payload) in enumerate(self.timeline):
            lab.sched.schedule_absolute(lab.abs(t), self._mk(i, kind, payload))

    def _fire(self, i, kind, payload):
        if self.fired[i]:
            return
        self.fired[i] = True
        for o in self.observers[:]:
            if o in self.observers:
                self._emit(o, kind, payload)

    def _mk(self, i, kind, payload):
        def action(s, st_=None):
            self._fire(i, kind, payload)
            return Disposable()

        return action

    def fire_next(self):
        """Emit the earliest not-yet-fired message immediately (its scheduled action becomes a no-op)."""
        for i, (t, kind, payload) in enumerate(self.timeline):
            if not self.fired[i]:
                self._fire(i, kind, payload)
                return True
        return False

    def _subscribe_core(self, observer, scheduler=None):
        idx = self._open()
        self.observers.append(observer)

        def dispose():
            if observer in self.observers:
                self.observers.remove(observer)
            self._close(idx)

        if self.raise_in_subscribe:
            raise Tagged(self.raise_in_subscribe)
        return Disposable(dispose)


class Probe:
    """Recording subscriber.

    raise_at: set of callback indices (0-based, over all callbacks) at which to raise.
    dispose_at_cb: callback index at which the probe disposes its own subscription (inside the callback).
    inner: policy for Observable-valued elements: None (ignore) | {"mode": "now"} |
           {"mode": "late", "d": ticks} | {"mode": "never"}; optional "unsub": ticks after subscribing.
    """

    def __init__(self, lab, name="p", raise_at=(), dispose_at_cb=None, inner=None, depth=0, reenter_on_terminal=False):
        self.lab = lab
        self.name = name
        self.events = []  # [tick, kind, canon, seq]
        self.raise_at = set(raise_at or ())
        self.dispose_at_cb = dispose_at_cb
        self.reenter_on_terminal = reenter_on_terminal  # terminal handler makes a hot source emit re-entrantly
        self.reentered = 0
        self.inner = inner
        self.depth = depth
        self.inners = []
        self.ncb = 0
        self.disposable = None
        self.sub_tick = None
        self.disposed_tick = None
        self.disposed_seq = None
        self.after_dispose = []  # events received after dispose() returned
        self.raised = []
        self._pending_dispose = False

    # observer protocol ---------------------------------------------------------------
    def _rec(self, kind, payload):
        lab = self.lab
        lab.step()
        ev = [lab.now(), kind, payload, lab.next_seq()]
        self.events.append(ev)
        if self.disposed_seq is not None:
            self.after_dispose.append(ev)
        k = self.ncb
        self.ncb += 1
        if self.dispose_at_cb is not None and k == self.dispose_at_cb:
            self.dispose()
        if self.reenter_on_terminal and kind in ("E", "C") and self.reentered < 2:
            self.reentered += 1
            lab.reenter()
        if k in self.raise_at:
            e = Tagged(f"probe:{self.name}:{k}")
            self.raised.append(e)
            raise e

    def on_next(self, v):
        c = self.lab.canon(v)
        if isinstance(v, Observable) and self.inner is not None and self.depth < 3:
            self._adopt(v)
        self._rec("N", c)

    def on_error(self, e):
        self._rec("E", self.lab.canon(e))

    def on_completed(self):
        self._rec("C", None)

    def _adopt(self, o):
        lab = self.lab
        pol = self.inner
        ip = Probe(lab, f"{self.name}.{len(self.inners)}", inner=pol, depth=self.depth + 1)
        ip.obs = lab.obs_id(o)
        self.inners.append(ip)
        lab.probes.append(ip)
        mode = pol.get("mode", "now")

        def do_sub():
            ip.subscribe(o)
            if pol.get("unsub") is not None:
                lab.sched.schedule_relative(lab.rel(pol["unsub"]), lambda s, st_=None: ip.dispose())

        if mode == "now":
            do_sub()
        elif mode == "late":
            lab.sched.schedule_relative(lab.rel(pol.get("d", 1)), lambda s, st_=None: do_sub())
        elif mode == "never":
            pass
        else:
            raise HarnessError(f"inner mode {mode}")

    # control -------------------------------------------------------------------------
    def subscribe(self, obs, scheduler="lab"):
        self.sub_tick = self.lab.now()
        sch = self.lab.sched if scheduler == "lab" else scheduler
        try:
            d = obs.subscribe(self.on_next, self.on_error, self.on_completed, scheduler=sch)
        except SpinGuard:
            self.lab.inconclusive = "spin"
            return None
        except BudgetExceeded:
            self.lab.inconclusive = "budget"
            return None
        except RecursionError:
            self.lab.inconclusive = "recursion"
            return None
        self.disposable = d
        if self._pending_dispose:
            d.dispose()
            self.disposed_seq = self.lab.next_seq()
        return d

    def dispose(self):
        if self.disposed_tick is None:
            self.disposed_tick = self.lab.now()
        if self.disposable is None:
            self._pending_dispose = True  # disposed from inside a callback during subscribe()
            return
        self.disposable.dispose()
        if self.disposed_seq is None:
            self.disposed_seq = self.lab.next_seq()

    # views ---------------------------------------------------------------------------
    def trace(self):
        """[[tick, kind, payload], ...] without seq."""
        return [e[:3] for e in self.events]

    def values(self):
        return [e[2] for e in self.events if e[1] == "N"]

    def terminal(self):
        for e in self.events:
            if e[1] in ("E", "C"):
                return e
        return None

    def tree(self):
        """Trace with inner probes' traces nested (for differential comparisons)."""
        return {"t": self.trace(), "inner": [[ip.obs, ip.sub_tick, ip.tree()] for ip in self.inners]}

    def grammar_ok(self):
        """N* (E|C)? and nothing after own dispose. Returns (ok, message)."""
        seen_term = False
        for e in self.events:
            if seen_term:
                return False, f"{self.name}: {e[1]} at t={e[0]} after terminal"
            if e[1] in ("E", "C"):
                seen_term = True
        if self.after_dispose:
            return False, f"{self.name}: {self.after_dispose[0][1]} at t={self.after_dispose[0][0]} after dispose"
        return True, ""


# ---------------------------------------------------------------------------------------
# strategies (all JSON-able)


_TL_CACHE = {}


def timelines(max_len=6, max_dt=4, values=NAMES, conforming=True, terminal=("C", "E", None), min_len=0, errors=("e1", "e2")):
    """Timeline strategy. conforming=False may append events after the terminal.
    The strategy object is cached per parameter set (building a composite per call is slow)."""
    key = (max_len, max_dt, tuple(values), conforming, tuple(terminal), min_len, tuple(errors))
    if key in _TL_CACHE:
        return _TL_CACHE[key]
    _TL_CACHE[key] = _timelines(max_len, max_dt, values, conforming, terminal, min_len, errors)
    return _TL_CACHE[key]


def _timelines(max_len, max_dt, values, conforming, terminal, min_len, errors):

    @st.composite
    def _tl(draw):
        n = draw(st.integers(min_len, max_len))
        t = 0
        out = []
        for _ in range(n):
            t += draw(st.integers(0, max_dt))
            out.append([t, "N", draw(st.sampled_from(list(values)))])
        term = draw(st.sampled_from(list(terminal)))
        if term is not None:
            t += draw(st.integers(0, max_dt))
            out.append([t, term, draw(st.sampled_from(list(errors))) if term == "E" else None])
            if not conforming and draw(st.integers(0, 2)) == 0:
                extra = draw(st.integers(1, 3))
                for _ in range(extra):
                    t += draw(st.integers(0, max_dt))
                    k = draw(st.sampled_from(["N", "N", "E", "C"]))
                    out.append([t, k, draw(st.sampled_from(list(values))) if k == "N" else (draw(st.sampled_from(list(errors))) if k == "E" else None)])
        return out

    return _tl()


def shift(timeline, dt):
    return [[t + dt, k, p] for t, k, p in timeline]


def conform(timeline):
    """The prefix of a timeline up to and including its first terminal."""
    out = []
    for m in timeline:
        out.append(m)
        if m[1] in ("E", "C"):
            break
    return out


def hpred(m, residues):
    """Total, pure predicate on any value(s): crc32(canon) % m in residues."""
    rs = set(residues)
    return lambda *a: stable_hash([canon(x) for x in a]) % m in rs


def hkey(m):
    return lambda *a: stable_hash([canon(x) for x in a]) % m
