"""Shared machinery for the disposable properties C25, C26, C27 (owned by the C25-C27 builder).

* counting items (`plain`: a bare DisposableBase; `empty`: an empty CompositeDisposable, i.e. a *falsy*
  disposable) that count every dispose() call, are yield points for Engine DET and log to det.log;
* single-thread HIST interpreters: run a command list on the real object and on an explicit model and
  compare after every step;
* DET interpreter: run 2-3 command lists as logical threads on one shared object under a schedule and
  judge the sequentially-consistent call log with interleaving-independent clauses.

Cases are plain data, see the RULE strings in props/C25.py, C26.py, C27.py.
"""
from __future__ import annotations

from reactivex.abc import DisposableBase
from reactivex.disposable import (
    BooleanDisposable,
    CompositeDisposable,
    Disposable,
    MultipleAssignmentDisposable,
    RefCountDisposable,
    ScheduledDisposable,
    SerialDisposable,
    SingleAssignmentDisposable,
)

from vlib import det
from vlib.core import FAIL, OK, SKIP, HarnessError

from vlib.values import Tagged

KINDS = ("plain", "empty")
HIST_KINDS = KINDS + ("reenter", "raises")  # single-thread histories only; composite also has "reenter-clear"


class ItemRaise(Tagged):
    """Raised by a 'raises' item from inside its dispose(), after counting the call."""


class Plain(DisposableBase):
    """Counts dispose() calls; deliberately has no at-most-once guard of its own."""

    def __init__(self, tag, behave=None):
        self.tag = tag
        self.n = 0
        self.ctx = []  # harness context captured at each dispose (e.g. "in-scheduler")
        self.behave = behave  # None | "reenter" | "reenter-clear" | "raises"
        self.hook = None  # reenter: what the item calls from inside its own dispose() (set by the harness)

    def dispose(self):
        det.yield_point("item-dispose")
        self.n += 1
        self.ctx.append(_CTX[0])
        det.log("item", self.tag)
        if self.behave == "raises":
            raise ItemRaise("item:" + self.tag)
        if self.behave and self.hook is not None and self.n <= 3:  # bounded: a missing once-guard shows as n == 4
            self.hook()

    def __repr__(self):
        return f"<{self.tag}{'(' + self.behave + ')' if self.behave else ''} n={self.n}>"


class Empty(CompositeDisposable):
    """An empty CompositeDisposable: a perfectly valid disposable whose truth value is False."""

    behave = None

    def __init__(self, tag):
        super().__init__()
        self.tag = tag
        self.n = 0
        self.ctx = []

    def dispose(self):
        det.yield_point("item-dispose")
        self.n += 1
        self.ctx.append(_CTX[0])
        det.log("item", self.tag)

    def __repr__(self):
        return f"<{self.tag}(falsy) n={self.n}>"


_CTX = [None]


def make_item(kind, tag):
    if kind == "empty":
        it = Empty(tag)
        if bool(it):
            raise HarnessError("Empty item is not falsy")
        return it
    if kind == "plain":
        return Plain(tag)
    if kind in ("reenter", "reenter-clear", "reenter-get", "raises"):
        return Plain(tag, kind)
    raise HarnessError(f"bad item kind {kind}")


CONTAINERS = {
    "composite": CompositeDisposable,
    "serial": SerialDisposable,
    "single": SingleAssignmentDisposable,
    "multi": MultipleAssignmentDisposable,
}


# ---------------------------------------------------------------------------------------------
# HIST: single-thread histories against models
# ---------------------------------------------------------------------------------------------
def _items_for(cmds, init, foreign):
    """Pre-allocate one fresh item per add/assign command (+ init + foreign).  Returns (items, slot_of_cmd)."""
    items, slot = [], {}
    for k in init:
        items.append(make_item(k, f"init{len(items)}"))
    for i, c in enumerate(cmds):
        if c[0] in ("add", "assign"):
            slot[i] = len(items)
            items.append(make_item(c[1], f"i{len(items)}:{c[1]}"))
    for k in foreign:
        items.append(make_item(k, f"foreign{len(items)}"))
    return items, slot


def hist_container(case):
    """case = {"cls": composite|serial|single|multi, "init": [kinds] (composite ctor args), "ctor_list": bool,
    "foreign": [kinds], "cmds": [[op, arg]...]}  ops: add kind | remove ref | contains ref | clear | len |
    dispose | assign kind | get.  ref is an index modulo the number of items of the case.
    Item kinds: plain | empty (falsy) | reenter (its dispose() calls the container's dispose()) | reenter-clear
    (composite: calls clear()) | raises (its dispose() raises ItemRaise after counting)."""
    cls, cmds = case["cls"], case["cmds"]
    init = case.get("init", []) if cls == "composite" else []
    items, slot = _items_for(cmds, init, case.get("foreign", []))
    n_init = len(init)
    if cls == "composite":
        args = items[:n_init]
        obj = CompositeDisposable(list(args)) if case.get("ctor_list") else CompositeDisposable(*args)
    else:
        obj = CONTAINERS[cls]()
    for it in items:
        if it.behave == "reenter":
            it.hook = obj.dispose
        elif it.behave == "reenter-clear":
            it.hook = obj.clear if cls == "composite" else obj.dispose
    # model
    exp = [0] * len(items)  # promised dispose count; None = unconstrained (<=1)
    st = {"held": list(range(n_init)), "disposed": False}  # composite: indices held in order; others: [cur] or []
    classes = set()
    nontrivial = False
    uncertain = False  # an item raised from inside a container call: from then on only "at most once" is judged
    flag_known = True  # is_disposed is only judged once a dispose() has RETURNED (not raised)

    def fail(clause, i, detail):
        return FAIL(f"{clause}|{cls}", f"step {i} {cmds[i] if i is not None and i < len(cmds) else ''}: {detail}; case={case}", classes=sorted(classes))

    def promise(j, newly):
        if exp[j] == 0:
            exp[j] = 1
            newly.append(j)

    def model_dispose(newly):
        for j in st["held"]:
            promise(j, newly)
        st["held"] = []
        st["disposed"] = True

    def model_clear(newly):
        for j in st["held"]:
            promise(j, newly)
        st["held"] = []

    for i, c in enumerate(cmds):
        op = c[0]
        raised = None
        ret = None
        before = [it.n for it in items]
        try:
            if op == "add":
                ret = obj.add(items[slot[i]])
            elif op == "remove":
                ret = obj.remove(items[c[1] % len(items)]) if items else None
            elif op == "contains":
                ret = obj.contains(items[c[1] % len(items)]) if items else None
            elif op == "clear":
                ret = obj.clear()
            elif op == "len":
                ret = len(obj)
            elif op == "dispose":
                ret = obj.dispose()
            elif op == "assign":
                obj.disposable = items[slot[i]]
            elif op == "get":
                ret = obj.disposable
            else:
                raise HarnessError(f"bad op {op}")
        except HarnessError:
            raise
        except Exception as e:  # noqa: BLE001
            raised = e
        item_raised = isinstance(raised, ItemRaise)
        if item_raised:
            if not any(it.behave == "raises" and it.n > before[j] for j, it in enumerate(items)):
                return fail("raised:ItemRaise", i, f"an item's exception surfaced although no raising item was disposed: {raised!r}")
            classes.add("item-raised")
            nontrivial = True
            raised = None  # the model treats the call as carried out; what follows is only judged for "at most once"
        held, disposed = st["held"], st["disposed"]
        newly = []
        # ---- model step
        if op == "add":
            j = slot[i]
            if items[j].__class__ is Empty:
                classes.add("falsy-item")
            if items[j].behave:
                classes.add(items[j].behave + "-item")
            if disposed:
                promise(j, newly)
                classes.add("add-after-dispose")
                nontrivial = True
            else:
                held.append(j)
        elif op == "remove" and items:
            j = c[1] % len(items)
            want = (not disposed) and j in held
            if want:
                held.remove(j)
                promise(j, newly)
                nontrivial = True
                classes.add("remove-held")
            else:
                classes.add("remove-not-held")
            if raised is None and not item_raised and not uncertain and bool(ret) != want:
                return fail("remove-result", i, f"remove returned {ret!r}, model says {want}")
        elif op == "contains" and items:
            j = c[1] % len(items)
            if raised is None and not uncertain and bool(ret) != (j in held):
                return fail("contains", i, f"contains returned {ret!r}, model holds {held}")
        elif op == "clear":
            if held:
                nontrivial = True
                classes.add("clear-nonempty")
            model_clear(newly)
        elif op == "len":
            if raised is None and not uncertain and ret != len(held):
                return fail("len", i, f"len {ret} != model {len(held)}")
        elif op == "dispose":
            if held:
                nontrivial = True
            if disposed:
                classes.add("dispose-twice")
            model_dispose(newly)
            flag_known = not item_raised
        elif op == "assign":
            j = slot[i]
            if items[j].__class__ is Empty:
                classes.add("falsy-item")
            if items[j].behave:
                classes.add(items[j].behave + "-item")
            if disposed:
                classes.add("assign-after-dispose")
                nontrivial = True
                if raised is not None and cls == "single":
                    exp[j] = None  # the text does not say whether a disposed SAD rejects; then it need not dispose
                    raised = None
                else:
                    promise(j, newly)
            elif cls == "single" and held:
                classes.add("second-assign-live" + ("-after-falsy" if items[held[0]].__class__ is Empty else ""))
                nontrivial = True
                if raised is None and not uncertain:
                    return fail("second-assign-accepted", i, f"second assignment to a live SingleAssignmentDisposable was accepted (held {items[held[0]]!r})")
                raised = None
                exp[j] = None
            else:
                if held:
                    nontrivial = True
                    classes.add("replace")
                    if cls == "serial":
                        promise(held[0], newly)
                    # multi: the replaced item is simply let go, not disposed
                st["held"] = [j]
        elif op == "get":
            if not disposed and raised is None and not uncertain:
                want = items[held[0]] if held else None
                if ret is not want:
                    return fail("get", i, f"disposable is {ret!r}, model {want!r}")
        # ---- re-entrant items: being disposed for the first time makes them call back into the container
        k = 0
        while k < len(newly):
            it = items[newly[k]]
            k += 1
            if it.behave == "reenter" or (it.behave == "reenter-clear" and cls != "composite"):
                classes.add("reentered-dispose")
                nontrivial = True
                if not st["disposed"]:
                    model_dispose(newly)
            elif it.behave == "reenter-clear":
                classes.add("reentered-clear")
                nontrivial = True
                model_clear(newly)
        held, disposed = st["held"], st["disposed"]
        if raised is not None:
            if uncertain:
                raised = None
            else:
                return fail(f"raised:{type(raised).__name__}", i, f"unexpected {raised!r}")
        if item_raised:
            uncertain = True
        # ---- invariant after every step
        for j, it in enumerate(items):
            if it.n > 1:
                clause = "disposed-twice" + (":falsy" if it.__class__ is Empty else "") + (":" + it.behave if it.behave else "")
                return fail(clause, i, f"{it!r} (held={held}, disposed={disposed})")
            if exp[j] is None or it.n == exp[j]:
                continue
            if uncertain:
                exp[j] = None  # after an item raised the text promises nothing beyond "at most once"
                continue
            if it.n > exp[j]:
                clause = "disposed-while-held" if (j in held and not disposed) else "disposed-unpromised"
            else:
                clause = "not-disposed"
            if it.__class__ is Empty:
                clause += ":falsy"
            return fail(clause, i, f"{it!r} expected {exp[j]} (held={held}, disposed={disposed})")
        if flag_known and not uncertain and bool(obj.is_disposed) != disposed:
            return fail("is_disposed", i, f"is_disposed={obj.is_disposed} model={disposed}")
    return OK(nontrivial, sorted(classes))


def hist_c25(case):
    """case = {"cls": disposable|boolean|scheduled, "action": plain|none|reentrant|raises (disposable),
    "item": kind, "on": virtual|immediate (scheduled), "cmds": [["dispose"] | ["run"] | ["read"]]}"""
    cls, cmds = case["cls"], case["cmds"]
    classes = set()
    ndisp = sum(1 for c in cmds if c[0] == "dispose")

    def fail(clause, i, detail):
        return FAIL(f"{clause}|{cls}", f"step {i}: {detail}; case={case}", classes=sorted(classes))

    if cls == "disposable":
        count = [0]
        mode = case.get("action", "plain")
        box = {}

        def action():
            count[0] += 1
            if mode == "reentrant" and count[0] < 5:
                box["d"].dispose()
            if mode == "raises":
                raise ItemRaise("action")

        d = Disposable(None if mode == "none" else action)
        box["d"] = d
        called = 0
        returned = 0  # dispose() calls that returned normally ("reports is_disposed once any dispose() returned")
        for i, c in enumerate(cmds):
            if c[0] == "dispose":
                called += 1
                try:
                    d.dispose()
                    returned += 1
                except ItemRaise:
                    if mode != "raises" or count[0] == 0:
                        raise
                    classes.add("action-raised")
                else:
                    if d.is_disposed is not True:
                        return fail("is_disposed-after-dispose", i, f"is_disposed={d.is_disposed!r}")
            elif c[0] == "read":
                if called == 0 and d.is_disposed:
                    return fail("is_disposed", i, "is_disposed before any dispose()")
                if returned and d.is_disposed is not True:
                    return fail("is_disposed", i, f"is_disposed={d.is_disposed!r} after {returned} dispose calls returned")
            want = 0 if mode == "none" else min(1, called)
            if count[0] != want:
                return fail("action-count", i, f"action ran {count[0]} times after {called} dispose calls")
        classes.add(f"action:{mode}")
        return OK(ndisp >= 2, sorted(classes))
    if cls == "boolean":
        d = BooleanDisposable()
        before = {k: v for k, v in vars(d).items() if k != "is_disposed"}
        called = 0
        for i, c in enumerate(cmds):
            if c[0] == "dispose":
                r = d.dispose()
                called += 1
                if r is not None:
                    return fail("dispose-returns", i, repr(r))
            if bool(d.is_disposed) != (called > 0):
                return fail("flag", i, f"is_disposed={d.is_disposed!r} after {called} dispose calls")
            after = {k: v for k, v in vars(d).items() if k != "is_disposed"}
            if after.keys() != before.keys() or any(after[k] is not before[k] for k in before):
                return fail("only-flag", i, f"state other than the flag changed: {before} -> {after}")
        return OK(ndisp >= 1, sorted(classes))
    if cls == "scheduled":
        from reactivex.scheduler import ImmediateScheduler
        from reactivex.testing import TestScheduler

        item = make_item(case.get("item", "plain"), "wrapped")
        virtual = case.get("on", "virtual") == "virtual"
        sched = TestScheduler() if virtual else ImmediateScheduler()
        d = ScheduledDisposable(sched, item)
        if item.behave == "reenter":
            item.hook = d.dispose  # the resource's teardown disposes its own wrapper again
        pending = 0
        ran = False
        raised_once = False  # the wrapped dispose() raised: only "at most once" is judged from then on
        _CTX[0] = None
        try:
            for i, c in enumerate(cmds):
                try:
                    if c[0] == "dispose":
                        pending += 1
                        if not virtual:
                            _CTX[0] = "in-scheduler"  # immediate: the scheduler runs the action inside schedule()
                            ran = True
                        d.dispose()
                    elif c[0] == "run" and virtual:
                        _CTX[0] = "in-scheduler"
                        if pending:
                            ran = True
                        sched.advance_by(c[1] if len(c) > 1 else 1)
                except ItemRaise:
                    if item.behave != "raises" or item.n == 0:
                        raise
                    raised_once = True
                    classes.add("item-raised")
                    if virtual:
                        sched.stop()  # harness recovery: an exception escaping advance_by leaves the scheduler enabled
                finally:
                    _CTX[0] = None
                if item.n > 1:
                    return fail("wrapped-disposed-twice" + (":" + item.behave if item.behave else ""), i, f"wrapped {item!r} (dispose calls {pending})")
                want = 1 if ran else 0
                if item.n != want:
                    clause = "disposed-off-scheduler" if (item.n == 1 and not ran) else ("wrapped-count" + (":falsy" if item.__class__ is Empty else ""))
                    return fail(clause, i, f"wrapped {item!r} expected {want} (dispose calls {pending}, scheduler ran={ran})")
                if item.ctx and item.ctx[0] != "in-scheduler":
                    return fail("disposed-off-scheduler", i, "wrapped disposed outside a scheduler action")
                if ran and not raised_once and d.is_disposed is not True:
                    return fail("is_disposed-after-run", i, f"is_disposed={d.is_disposed!r}")
        finally:
            _CTX[0] = None
        if item.__class__ is Empty:
            classes.add("falsy-item")
        if item.behave:
            classes.add(item.behave + "-item")
        classes.add("virtual" if virtual else "immediate")
        return OK(pending >= 1 and ran, sorted(classes))
    raise HarnessError(f"bad cls {cls}")


REFCOUNT_KINDS = HIST_KINDS + ("reenter-get",)


def hist_refcount(case):
    """case = {"item": kind, "cmds": [["get"] | ["dep", ref] | ["primary"]]}; ref modulo #dependents so far.
    Underlying kinds: plain | empty (falsy) | reenter (its dispose() calls the RefCountDisposable's dispose() and every
    dependent's dispose() again) | reenter-get (its dispose() requests a new dependent and disposes it) | raises (raises
    ItemRaise after counting; the history catches it and goes on)."""
    cmds = case["cmds"]
    under = make_item(case.get("item", "plain"), "underlying")
    rc = RefCountDisposable(under)
    deps = []  # (real, live_in_model)
    if under.behave == "reenter":
        under.hook = lambda: (rc.dispose(), [d.dispose() for d in list(deps)])
    elif under.behave == "reenter-get":
        under.hook = lambda: rc.disposable.dispose()
    live = set()
    primary = False
    released = False
    classes = set()
    nontrivial = False

    def fail(clause, i, detail):
        return FAIL(f"{clause}|refcount", f"step {i} {cmds[i]}: {detail}; case={case}", classes=sorted(classes))

    for i, c in enumerate(cmds):
        n0 = under.n
        try:
            if c[0] == "get":
                dep = rc.disposable
                if released:
                    classes.add("get-after-release")
                    nontrivial = True
                else:
                    live.add(len(deps))
                    if primary:
                        classes.add("get-after-primary")
                deps.append(dep)
            elif c[0] == "dep":
                if not deps:
                    continue
                j = c[1] % len(deps)
                if j in live:
                    live.discard(j)
                else:
                    classes.add("dep-twice-or-inert")
                    nontrivial = True
                deps[j].dispose()
            elif c[0] == "primary":
                if primary:
                    classes.add("primary-twice")
                primary = True
                rc.dispose()
        except ItemRaise:
            if under.behave != "raises" or under.n == n0:
                raise
            classes.add("item-raised")
            nontrivial = True
        if primary and not live and not released:
            released = True
            if under.behave:
                classes.add(under.behave + "-release")
                nontrivial = True
            if deps:
                nontrivial = True
                classes.add("release-by-dependent" if c[0] == "dep" else "release-by-primary")
        want = 1 if released else 0
        if under.n != want:
            if under.n > 1:
                clause = "released-twice" + (":" + under.behave if under.behave else "")
            elif under.n == 1:
                clause = "released-early"
            else:
                clause = "not-released"
            if under.__class__ is Empty:
                clause += ":falsy"
            return fail(clause, i, f"underlying {under!r} expected {want} (primary={primary}, live dependents={sorted(live)})")
    if under.__class__ is Empty:
        classes.add("falsy-item")
    return OK(nontrivial, sorted(classes))


# ---------------------------------------------------------------------------------------------
# DET: 2-3 logical threads on one shared object
# ---------------------------------------------------------------------------------------------
RUN_KW = dict(max_steps=4000, reuse_threads=True)  # disposables do not look at thread identity


def det_build(case):
    """case = {"cls", "init": [kinds], "foreign": [kinds], "item": kind, "deps": int, "action": ...,
    "threads": [[cmd...]...]}.  Returns (thread callables, ctx).  Must be called while det.patched()."""
    cls = case["cls"]
    T = case["threads"]
    ctx = {"cls": cls, "items": [], "slot": {}, "count": [0], "results": {}}
    items = ctx["items"]
    for k in case.get("init", []):
        items.append(make_item(k, f"init{len(items)}"))
    n_init = len(items)
    for t, cmds in enumerate(T):
        for i, c in enumerate(cmds):
            if c[0] in ("add", "assign"):
                ctx["slot"][(t, i)] = len(items)
                items.append(make_item(c[1], f"t{t}c{i}:{c[1]}"))
    for k in case.get("foreign", []):
        items.append(make_item(k, f"foreign{len(items)}"))
    ctx["n_init"] = n_init
    if cls == "composite":
        obj = CompositeDisposable(*items[:n_init])
    elif cls in CONTAINERS:
        obj = CONTAINERS[cls]()
    elif cls == "disposable":
        def action():
            det.yield_point("action")
            ctx["count"][0] += 1
            det.log("action")

        obj = Disposable(action)
    elif cls == "boolean":
        obj = BooleanDisposable()
    elif cls == "scheduled":
        from reactivex.scheduler import EventLoopScheduler, ImmediateScheduler

        ctx["under"] = make_item(case.get("item", "plain"), "wrapped")
        from reactivex.scheduler import TimeoutScheduler

        ctx["sched"] = {"eventloop": EventLoopScheduler, "timeout": TimeoutScheduler}.get(case.get("on"), ImmediateScheduler)()
        obj = ScheduledDisposable(ctx["sched"], ctx["under"])
    elif cls == "refcount":
        ctx["under"] = make_item(case.get("item", "plain"), "underlying")
        obj = RefCountDisposable(ctx["under"])
        ctx["deps"] = [obj.disposable for _ in range(case.get("deps", 0))]
    else:
        raise HarnessError(f"bad cls {cls}")
    ctx["obj"] = obj
    bad = det.audit_object(obj)
    if bad:
        raise HarnessError(f"object under test carries real locks (built before patching?): {bad}")
    results = ctx["results"]

    def make_thread(t, cmds):
        def body():
            for i, c in enumerate(cmds):
                op = c[0]
                det.log("call", t, i)
                out = None
                try:
                    if op == "dispose" or op == "primary":
                        obj.dispose()
                        out = ["flag", bool(obj.is_disposed)] if cls != "refcount" else None
                    elif op == "add":
                        obj.add(items[ctx["slot"][(t, i)]])
                    elif op == "remove":
                        if items:
                            out = ["ret", bool(obj.remove(items[c[1] % len(items)]))]
                    elif op == "clear":
                        obj.clear()
                    elif op == "assign":
                        obj.disposable = items[ctx["slot"][(t, i)]]
                    elif op == "dep":
                        ctx["deps"][c[1] % len(ctx["deps"])].dispose()
                    elif op == "get":
                        dep = obj.disposable
                        det.log("got", t, i)
                        results[(t, i, "dep")] = dep
                    elif op == "getdisp":
                        dep = obj.disposable
                        det.log("got", t, i)
                        results[(t, i, "dep")] = dep
                        det.yield_point("between-get-and-dispose")
                        det.log("depcall", t, i)
                        dep.dispose()
                    else:
                        raise HarnessError(f"bad op {op}")
                except HarnessError:
                    raise
                except Exception as e:  # noqa: BLE001
                    if op == "assign" and cls == "single":
                        out = ["raised", type(e).__name__]
                    else:
                        raise
                results[(t, i)] = out
                det.log("ret", t, i)

        return body

    return [make_thread(t, cmds) for t, cmds in enumerate(T)], ctx


def _pos(events):
    """index of each harness event in the global order"""
    p = {}
    for k, (_, _, pl) in enumerate(events):
        if isinstance(pl, tuple):
            p.setdefault(pl, k)
    return p


def det_judge(case, ctx, res):
    """Interleaving-independent end-state clauses.  Returns None or (clause, detail)."""
    cls, T = case["cls"], case["threads"]
    items, obj, results = ctx["items"], ctx["obj"], ctx["results"]
    if res.deadlock:
        return "deadlock", repr(res.deadlock)
    if res.exceptions:
        tid, e = sorted(res.exceptions.items())[0]
        return f"escaped:{type(e).__name__}", f"thread {tid}: {e!r}"
    if not res.complete:
        return None
    pos = _pos(res.events)
    cmds = [(t, i, c) for t, cl in enumerate(T) for i, c in enumerate(cl)]
    disposes = [(t, i) for t, i, c in cmds if c[0] in ("dispose", "primary")]
    # C25 clause shared by all classes with a flag: is_disposed is true once a dispose() returned
    if cls != "refcount" and not (cls == "scheduled" and case.get("on") in ("eventloop", "timeout")):
        for t, i in disposes:
            if results.get((t, i)) != ["flag", True]:
                return "is_disposed-after-dispose", f"thread {t} cmd {i}: is_disposed was {results.get((t, i))} right after dispose() returned"
    for it in items:
        if it.n > 1:
            return "disposed-twice" + (":falsy" if it.__class__ is Empty else ""), f"{it!r}"
    n_init = ctx["n_init"]
    added = list(range(n_init)) + sorted(ctx["slot"].values())
    D = bool(disposes)
    if cls == "composite":
        held = obj.to_list()
        for j in range(len(items)):
            it = items[j]
            if j not in added:
                if it.n:
                    return "disposed-unpromised", f"foreign {it!r}"
                continue
            in_held = any(x is it for x in held)
            if it.n == 0 and not in_held:
                return "lost-item", f"{it!r} is neither held nor disposed (container disposed={D})"
            if it.n == 1 and in_held:
                return "disposed-while-held", f"{it!r}"
            could = D or any(c[0] == "clear" or (c[0] == "remove" and c[1] % len(items) == j) for _, _, c in cmds)  # items non-empty here
            if it.n and not could:
                return "disposed-unpromised", f"{it!r}"
        if D and held:
            return "held-after-dispose", f"{held!r}"
        for t, i, c in cmds:
            if c[0] == "remove" and items and results.get((t, i)) == ["ret", True] and items[c[1] % len(items)].n != 1:
                return "removed-not-disposed", f"{items[c[1] % len(items)]!r}"
    elif cls in ("serial", "multi", "single"):
        cur = obj.disposable
        assigns = [(t, i) for t, i, c in cmds if c[0] == "assign"]
        ok_assigns = [a for a in assigns if results.get(a) is None]
        its = {a: items[ctx["slot"][a]] for a in assigns}
        if cls == "single":
            first_dispose_call = min([pos[("call", t, i)] for t, i in disposes], default=None)
            live_ok = [a for a in ok_assigns if first_dispose_call is None or pos[("ret",) + a] < first_dispose_call]
            if len(live_ok) > 1:
                return "second-assign-accepted", f"{len(live_ok)} assignments to a live SingleAssignmentDisposable were accepted: {[its[a] for a in live_ok]}"
            if not D and assigns and len(ok_assigns) != 1:
                return "assign-count", f"{len(ok_assigns)} of {len(assigns)} assignments accepted without any dispose"
            for a in assigns:
                if results.get(a) is not None and its[a].n and not D:
                    return "disposed-unpromised", f"rejected {its[a]!r}"
        if D:
            if cls != "single" and cur is not None:
                return "held-after-dispose", f"disposable={cur!r} after dispose() returned"
            if cls == "multi":
                last_ret = min(pos[("ret", t, i)] for t, i in disposes)
                for a in ok_assigns:
                    if pos[("call",) + a] > last_ret and its[a].n != 1:
                        return "not-disposed", f"{its[a]!r} assigned after dispose() returned"
                if ok_assigns and sum(1 for a in ok_assigns if its[a].n == 0) > len(ok_assigns) - 1:
                    return "lost-item", f"container disposed but none of {[its[a] for a in ok_assigns]} was disposed"
            else:
                for a in ok_assigns:
                    if its[a].n != 1:
                        return "not-disposed" + (":falsy" if its[a].__class__ is Empty else ""), f"{its[a]!r} was assigned (accepted) and the container is disposed"
        else:
            for a in ok_assigns:
                it = its[a]
                if cls == "multi":
                    if it.n:
                        return "disposed-unpromised", f"{it!r}"
                elif (it.n == 0) != (cur is it):
                    return ("disposed-while-held" if it.n else "lost-item"), f"{it!r} current={cur!r}"
            if ok_assigns and not any(cur is its[a] for a in ok_assigns):
                return "lost-item", f"current={cur!r} is none of the assigned items"
    elif cls == "disposable":
        want = 1 if D else 0
        if ctx["count"][0] != want:
            return "action-count", f"action ran {ctx['count'][0]} times for {len(disposes)} dispose calls"
    elif cls == "boolean":
        pass
    elif cls == "scheduled":
        under = ctx["under"]
        if under.n != (1 if D else 0):
            return "wrapped-count", f"{under!r} after {len(disposes)} dispose calls"
        if case.get("on") in ("eventloop", "timeout") and D:
            ev = [(k, tid) for k, (_, tid, pl) in enumerate(res.events) if pl == ("item", "wrapped")]
            if ev and ev[0][1] is not None and ev[0][1] < len(T):
                return "disposed-off-scheduler", f"wrapped resource disposed on program thread {ev[0][1]}, not on the scheduler's thread"
    elif cls == "refcount":
        under = ctx["under"]
        ndeps = len(ctx["deps"])
        if under.n > 1:
            return "released-twice", f"{under!r}"
        rel = pos.get(("item", "underlying"))
        prim_calls = [pos[("call", t, i)] for t, i in disposes]
        dep_calls = {}
        for t, i, c in cmds:
            if c[0] == "dep" and ndeps:
                j = c[1] % ndeps
                dep_calls[j] = min(dep_calls.get(j, 1 << 60), pos[("call", t, i)])
        keeps = [(t, i) for t, i, c in cmds if c[0] == "get"]
        gds = [(t, i) for t, i, c in cmds if c[0] == "getdisp"]
        if rel is not None:
            if not prim_calls or min(prim_calls) > rel:
                return "released-early", "underlying disposed before the primary dispose() was called"
            for j in range(ndeps):
                if dep_calls.get(j, 1 << 60) > rel:
                    return "released-early", f"underlying disposed while dependent {j} was not disposed"
            # a dependent requested after the release was *decided* (but before the underlying dispose() ran) is
            # inert by contract; only dependents that are real InnerDisposables count as live here
            live = lambda a: isinstance(results.get(a + ("dep",)), RefCountDisposable.InnerDisposable)  # noqa: E731
            for a in keeps:
                if pos[("got",) + a] < rel and live(a):
                    return "released-early", f"underlying disposed while the dependent handed out at {a} is live"
            for a in gds:
                if pos[("got",) + a] < rel and pos[("depcall",) + a] > rel and live(a):
                    return "released-early", f"underlying disposed before the dependent handed out at {a} was disposed"
        else:
            if prim_calls and all(j in dep_calls for j in range(ndeps)) and not keeps:
                return "not-released", f"primary and all {ndeps}+{len(gds)} dependents disposed but underlying {under!r}"
    return None


def det_classes(case, res):
    cl = [f"T{len(case['threads'])}"]
    if res.overlapped():
        cl.append("overlap")
    return cl


def det_run(case):
    """Run a DET case.  case["sched"] = {"mode": "all", "K": k} (exhaustive up to k preemptions)
    | {"mode": "raw", "points": [[pos, tid]...]} (resolved against the unpreempted run)
    | {"mode": "exact", "points": [[step, tid]...]}."""
    sched = case["sched"]
    cls = case["cls"]
    kw = dict(RUN_KW)
    if case.get("opcodes"):
        kw["opcodes"] = case["opcodes"]
    if case.get("slice"):
        kw_slice = tuple(case["slice"])
    else:
        kw_slice = None
    factory = lambda: det_build(case)  # noqa: E731

    def verdict(s, res, ctx):
        bad = det_judge(case, ctx, res)
        if bad is None:
            return None
        # determinism: the failing (program, schedule) pair must fail the same way again
        res2, ctx2 = det.run_checked(factory, s, **kw)
        bad2 = det_judge(case, ctx2, res2)
        if bad2 is None or bad2[0] != bad[0]:
            raise HarnessError(f"verdict not reproducible for schedule {s}: {bad} vs {bad2}")
        return bad[0], f"{bad[1]}; exact schedule={s}; {res2.describe()}; case={case}"

    with det.patched():
        if sched["mode"] == "all":
            runs = 0
            overlap = 0
            incomplete = 0
            for s, res, ctx in det.explore(factory, K=sched["K"], slice_=kw_slice, **kw):
                if runs == 0:
                    res_b, _ = det.run_checked(factory, s, **kw)  # determinism of the base run
                    if res_b.fingerprint() != res.fingerprint():
                        raise HarnessError("base run not deterministic")
                runs += 1
                overlap += res.overlapped()
                incomplete += not res.complete
                v = verdict(s, res, ctx)
                if v:
                    return FAIL(f"{v[0]}|{cls}", v[1], classes=["exhaustive"])
            if incomplete:
                return SKIP("budget")
            cl = ["exhaustive", f"K{sched['K']}", f"T{len(case['threads'])}"]
            if cls == "scheduled":
                cl.append(f"on:{case.get('on', 'immediate')}:K{sched['K']}")
            cl.append("shape:" + "|".join(str(len(t)) for t in case["threads"]) + f":K{sched['K']}")
            cl += [f"runs>={b}" for b in (10, 100, 1000) if runs >= b]
            return OK(overlap > 0, cl)
        threads, ctx = factory()
        base = det.run_program(threads, **kw)
        if sched["mode"] == "raw":
            s = det.resolve_schedule(sched["points"], base, nthreads=len(case["threads"]))
        else:
            s = [list(p) for p in sched["points"]]
        if sum(p[0] for p in s) % 4 == 0:
            res, ctx = det.run_checked(factory, s, **kw)
        else:
            threads, ctx = factory()
            res = det.run_program(threads, s, **kw)
        if not res.complete and not res.deadlock:
            return SKIP("budget")
        v = verdict(s, res, ctx)
        if v:
            return FAIL(f"{v[0]}|{cls}", v[1], classes=det_classes(case, res))
        return OK(res.overlapped(), det_classes(case, res) + [f"switches:{min(len(res.switches()), 6)}"])


# ---------------------------------------------------------------------------------------------
# enumeration / generation helpers shared by props/C25-C27
# ---------------------------------------------------------------------------------------------
def sequences(alphabet, max_len, min_len=1):
    """All command lists over `alphabet` with min_len..max_len commands."""
    import itertools

    for n in range(min_len, max_len + 1):
        for seq in itertools.product(alphabet, repeat=n):
            yield [list(c) for c in seq]


def programs(alphabet, shapes):
    """All thread lists whose thread lengths follow one of `shapes` (e.g. (1, 2) = 1 command || 2 commands)."""
    import itertools

    for shape in shapes:
        per_thread = [list(sequences(alphabet, n, n)) for n in shape]
        for combo in itertools.product(*per_thread):
            yield [t for t in combo]


def program_strategy(alphabet_strategy, max_threads=3, max_cmds=3):
    from hypothesis import strategies as st

    return st.lists(st.lists(alphabet_strategy, min_size=1, max_size=max_cmds), min_size=2, max_size=max_threads)


def sched_strategy(K=3):
    from hypothesis import strategies as st

    return st.builds(lambda pts: {"mode": "raw", "points": pts}, det.raw_schedules(K=K, max_pos=128, max_tid=3))
