"""Shared machinery for the disposable properties C25, C26, C27 (owned by the C25-C27 builder).

* counting items (`plain`: a bare DisposableBase; `empty`: an empty CompositeDisposable, i.e. a *falsy*
  disposable) that count every dispose() call, are yield points for Engine DET and log to det.log;
* single-thread HIST interpreters: run a command list on the real object and on an explicit model and
  compare after every step;
* DET interpreter: run 2-3 command lists as logical threads on one shared object under a schedule and
  judge the sequentially-consistent call log with interleaving-independent clauses.

Cases are plain data, see the RULE strings in props/C25.py, C26.py, C27.py.
"""
from __future__ import annotations

from reactivex.abc import DisposableBase
from reactivex.disposable import (
    BooleanDisposable,
    CompositeDisposable,
    Disposable,
    MultipleAssignmentDisposable,
    RefCountDisposable,
    ScheduledDisposable,
    SerialDisposable,
    SingleAssignmentDisposable,
)

from vlib import det
from vlib.core import FAIL, OK, SKIP, HarnessError

KINDS = ("plain", "empty")


class Plain(DisposableBase):
    """Counts dispose() calls; deliberately has no at-most-once guard of its own."""

    def __init__(self, tag):
        self.tag = tag
        self.n = 0
        self.ctx = []  # harness context captured at each dispose (e.g. "in-scheduler")

    def dispose(self):
        det.yield_point("item-dispose")
        self.n += 1
        self.ctx.append(_CTX[0])
        det.log("item", self.tag)

    def __repr__(self):
        return f"<{self.tag} n={self.n}>"


class Empty(CompositeDisposable):
    """An empty CompositeDisposable: a perfectly valid disposable whose truth value is False."""

    def __init__(self, tag):
        super().__init__()
        self.tag = tag
        self.n = 0
        self.ctx = []

    def dispose(self):
        det.yield_point("item-dispose")
        self.n += 1
        self.ctx.append(_CTX[0])
        det.log("item", self.tag)

    def __repr__(self):
        return f"<{self.tag}(falsy) n={self.n}>"


_CTX = [None]


def make_item(kind, tag):
    it = Plain(tag) if kind == "plain" else Empty(tag)
    if kind == "empty" and bool(it):
        raise HarnessError("Empty item is not falsy")
    return it


CONTAINERS = {
    "composite": CompositeDisposable,
    "serial": SerialDisposable,
    "single": SingleAssignmentDisposable,
    "multi": MultipleAssignmentDisposable,
}


# ---------------------------------------------------------------------------------------------
# HIST: single-thread histories against models
# ---------------------------------------------------------------------------------------------
def _items_for(cmds, init, foreign):
    """Pre-allocate one fresh item per add/assign command (+ init + foreign).  Returns (items, slot_of_cmd)."""
    items, slot = [], {}
    for k in init:
        items.append(make_item(k, f"init{len(items)}"))
    for i, c in enumerate(cmds):
        if c[0] in ("add", "assign"):
            slot[i] = len(items)
            items.append(make_item(c[1], f"i{len(items)}:{c[1]}"))
    for k in foreign:
        items.append(make_item(k, f"foreign{len(items)}"))
    return items, slot


def hist_container(case):
    """case = {"cls": composite|serial|single|multi, "init": [kinds] (composite ctor args), "ctor_list": bool,
    "foreign": [kinds], "cmds": [[op, arg]...]}  ops: add kind | remove ref | contains ref | clear | len |
    dispose | assign kind | get.  ref is an index modulo the number of items of the case."""
    cls, cmds = case["cls"], case["cmds"]
    init = case.get("init", []) if cls == "composite" else []
    items, slot = _items_for(cmds, init, case.get("foreign", []))
    n_init = len(init)
    if cls == "composite":
        args = items[:n_init]
        obj = CompositeDisposable(list(args)) if case.get("ctor_list") else CompositeDisposable(*args)
    else:
        obj = CONTAINERS[cls]()
    # model
    exp = [0] * len(items)  # promised dispose count; None = unconstrained (<=1)
    held = list(range(n_init))  # composite: indices held, in order;  others: [cur] or []
    disposed = False
    classes = set()
    nontrivial = False

    def fail(clause, i, detail):
        return FAIL(f"{clause}|{cls}", f"step {i} {cmds[i] if i is not None and i < len(cmds) else ''}: {detail}; case={case}", classes=sorted(classes))

    for i, c in enumerate(cmds):
        op = c[0]
        raised = None
        ret = None
        try:
            if op == "add":
                ret = obj.add(items[slot[i]])
            elif op == "remove":
                ret = obj.remove(items[c[1] % len(items)]) if items else None
            elif op == "contains":
                ret = obj.contains(items[c[1] % len(items)]) if items else None
            elif op == "clear":
                ret = obj.clear()
            elif op == "len":
                ret = len(obj)
            elif op == "dispose":
                ret = obj.dispose()
            elif op == "assign":
                obj.disposable = items[slot[i]]
            elif op == "get":
                ret = obj.disposable
            else:
                raise HarnessError(f"bad op {op}")
        except HarnessError:
            raise
        except Exception as e:  # noqa: BLE001
            raised = e
        # ---- model step
        if op == "add":
            j = slot[i]
            if items[j].__class__ is Empty:
                classes.add("falsy-item")
            if disposed:
                exp[j] = 1
                classes.add("add-after-dispose")
                nontrivial = True
            else:
                held.append(j)
        elif op == "remove" and items:
            j = c[1] % len(items)
            want = (not disposed) and j in held
            if want:
                held.remove(j)
                exp[j] = 1
                nontrivial = True
                classes.add("remove-held")
            else:
                classes.add("remove-not-held")
            if raised is None and bool(ret) != want:
                return fail("remove-result", i, f"remove returned {ret!r}, model says {want}")
        elif op == "contains" and items:
            j = c[1] % len(items)
            if raised is None and bool(ret) != (j in held):
                return fail("contains", i, f"contains returned {ret!r}, model holds {held}")
        elif op == "clear":
            for j in held:
                exp[j] = 1
            if held:
                nontrivial = True
                classes.add("clear-nonempty")
            held = []
        elif op == "len":
            if raised is None and ret != len(held):
                return fail("len", i, f"len {ret} != model {len(held)}")
        elif op == "dispose":
            for j in held:
                exp[j] = 1
            if held:
                nontrivial = True
            if disposed:
                classes.add("dispose-twice")
            held = []
            disposed = True
        elif op == "assign":
            j = slot[i]
            falsy = items[j].__class__ is Empty
            if falsy:
                classes.add("falsy-item")
            if disposed:
                classes.add("assign-after-dispose")
                nontrivial = True
                if raised is not None and cls == "single":
                    exp[j] = None  # the text does not say whether a disposed SAD rejects; then it need not dispose
                    raised = None
                else:
                    exp[j] = 1
            elif cls == "single" and held:
                classes.add("second-assign-live" + ("-after-falsy" if items[held[0]].__class__ is Empty else ""))
                nontrivial = True
                if raised is None:
                    return fail("second-assign-accepted", i, f"second assignment to a live SingleAssignmentDisposable was accepted (held {items[held[0]]!r})")
                raised = None
                exp[j] = None
            else:
                if held:
                    nontrivial = True
                    classes.add("replace")
                    if cls == "serial":
                        exp[held[0]] = 1
                    # multi: the replaced item is simply let go, not disposed
                held = [j]
        elif op == "get":
            if not disposed and raised is None:
                want = items[held[0]] if held else None
                if ret is not want:
                    return fail("get", i, f"disposable is {ret!r}, model {want!r}")
        if raised is not None:
            return fail(f"raised:{type(raised).__name__}", i, f"unexpected {raised!r}")
        # ---- invariant after every step
        for j, it in enumerate(items):
            if exp[j] is None:
                if it.n > 1:
                    return fail("disposed-more-than-once", i, f"{it!r}")
            elif it.n != exp[j]:
                if it.n > exp[j]:
                    clause = "disposed-while-held" if (j in held and not disposed) else ("disposed-twice" if it.n > 1 else "disposed-unpromised")
                else:
                    clause = "not-disposed"
                if it.__class__ is Empty:
                    clause += ":falsy"
                return fail(clause, i, f"{it!r} expected {exp[j]} (held={held}, disposed={disposed})")
        if bool(obj.is_disposed) != disposed:
            return fail("is_disposed", i, f"is_disposed={obj.is_disposed} model={disposed}")
    return OK(nontrivial, sorted(classes))


def hist_c25(case):
    """case = {"cls": disposable|boolean|scheduled, "action": plain|none|reentrant|raises (disposable),
    "item": kind, "sched": virtual|immediate (scheduled), "cmds": [["dispose"] | ["run"] | ["read"]]}"""
    cls, cmds = case["cls"], case["cmds"]
    classes = set()
    ndisp = sum(1 for c in cmds if c[0] == "dispose")

    def fail(clause, i, detail):
        return FAIL(f"{clause}|{cls}", f"step {i}: {detail}; case={case}", classes=sorted(classes))

    if cls == "disposable":
        count = [0]
        mode = case.get("action", "plain")
        box = {}

        def action():
            count[0] += 1
            if mode == "reentrant" and count[0] < 5:
                box["d"].dispose()

        d = Disposable(None if mode == "none" else action)
        box["d"] = d
        called = 0
        for i, c in enumerate(cmds):
            if c[0] == "dispose":
                d.dispose()
                called += 1
                if d.is_disposed is not True:
                    return fail("is_disposed-after-dispose", i, f"is_disposed={d.is_disposed!r}")
            elif c[0] == "read":
                if bool(d.is_disposed) != (called > 0):
                    return fail("is_disposed", i, f"is_disposed={d.is_disposed!r} after {called} dispose calls")
            want = 0 if mode == "none" else min(1, called)
            if count[0] != want:
                return fail("action-count", i, f"action ran {count[0]} times after {called} dispose calls")
        classes.add(f"action:{mode}")
        return OK(ndisp >= 2, sorted(classes))
    if cls == "boolean":
        d = BooleanDisposable()
        before = {k: v for k, v in vars(d).items() if k != "is_disposed"}
        called = 0
        for i, c in enumerate(cmds):
            if c[0] == "dispose":
                r = d.dispose()
                called += 1
                if r is not None:
                    return fail("dispose-returns", i, repr(r))
            if bool(d.is_disposed) != (called > 0):
                return fail("flag", i, f"is_disposed={d.is_disposed!r} after {called} dispose calls")
            after = {k: v for k, v in vars(d).items() if k != "is_disposed"}
            if after.keys() != before.keys() or any(after[k] is not before[k] for k in before):
                return fail("only-flag", i, f"state other than the flag changed: {before} -> {after}")
        return OK(ndisp >= 1, sorted(classes))
    if cls == "scheduled":
        from reactivex.scheduler import ImmediateScheduler
        from reactivex.testing import TestScheduler

        item = make_item(case.get("item", "plain"), "wrapped")
        virtual = case.get("sched", "virtual") == "virtual"
        sched = TestScheduler() if virtual else ImmediateScheduler()
        d = ScheduledDisposable(sched, item)
        pending = 0
        ran = False
        _CTX[0] = None
        try:
            for i, c in enumerate(cmds):
                if c[0] == "dispose":
                    if not virtual:
                        _CTX[0] = "in-scheduler"  # immediate: the scheduler runs the action inside schedule()
                    d.dispose()
                    _CTX[0] = None
                    pending += 1
                    if not virtual:
                        ran = True
                elif c[0] == "run" and virtual:
                    _CTX[0] = "in-scheduler"
                    sched.advance_by(c[1] if len(c) > 1 else 1)
                    _CTX[0] = None
                    if pending:
                        ran = True
                want = 1 if ran else 0
                if item.n != want:
                    clause = "disposed-off-scheduler" if (item.n == 1 and not ran) else ("wrapped-count" + (":falsy" if item.__class__ is Empty else ""))
                    return fail(clause, i, f"wrapped {item!r} expected {want} (dispose calls {pending}, scheduler ran={ran})")
                if item.ctx and item.ctx[0] != "in-scheduler":
                    return fail("disposed-off-scheduler", i, "wrapped disposed outside a scheduler action")
                if ran and d.is_disposed is not True:
                    return fail("is_disposed-after-run", i, f"is_disposed={d.is_disposed!r}")
        finally:
            _CTX[0] = None
        if item.__class__ is Empty:
            classes.add("falsy-item")
        classes.add("virtual" if virtual else "immediate")
        return OK(pending >= 1 and ran, sorted(classes))
    raise HarnessError(f"bad cls {cls}")


def hist_refcount(case):
    """case = {"item": kind, "cmds": [["get"] | ["dep", ref] | ["primary"]]}; ref modulo #dependents so far."""
    cmds = case["cmds"]
    under = make_item(case.get("item", "plain"), "underlying")
    rc = RefCountDisposable(under)
    deps = []  # (real, live_in_model)
    live = set()
    primary = False
    released = False
    classes = set()
    nontrivial = False

    def fail(clause, i, detail):
        return FAIL(f"{clause}|refcount", f"step {i} {cmds[i]}: {detail}; case={case}", classes=sorted(classes))

    for i, c in enumerate(cmds):
        if c[0] == "get":
            dep = rc.disposable
            if released:
                classes.add("get-after-release")
                nontrivial = True
            else:
                live.add(len(deps))
                if primary:
                    classes.add("get-after-primary")
            deps.append(dep)
        elif c[0] == "dep":
            if not deps:
                continue
            j = c[1] % len(deps)
            deps[j].dispose()
            if j in live:
                live.discard(j)
            else:
                classes.add("dep-twice-or-inert")
                nontrivial = True
        elif c[0] == "primary":
            if primary:
                classes.add("primary-twice")
            primary = True
            rc.dispose()
        if primary and not live and not released:
            released = True
            if deps:
                nontrivial = True
                classes.add("release-by-dependent" if c[0] == "dep" else "release-by-primary")
        want = 1 if released else 0
        if under.n != want:
            if under.n > 1:
                clause = "released-twice"
            elif under.n == 1:
                clause = "released-early"
            else:
                clause = "not-released"
            if under.__class__ is Empty:
                clause += ":falsy"
            return fail(clause, i, f"underlying {under!r} expected {want} (primary={primary}, live dependents={sorted(live)})")
    if under.__class__ is Empty:
        classes.add("falsy-item")
    return OK(nontrivial, sorted(classes))
