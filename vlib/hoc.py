"""Helpers for the higher-order / sequential composition properties (C10, C11, C12).
(kind "subject" = hot source backed by a real reactivex Subject: late subscribers get the terminal at once;
 kind "subsched" = cold source that runs on the scheduler handed down by subscribe(scheduler=...), like timer/interval.)

Owned by the C10-C12 builder.  Three parts:

* ``TSource`` - traced logged source (cold / sync / hot / leaky, optionally *scripted*: a different
  timeline per subscription index).  Besides ``subs`` / ``sub_seq`` (same meaning as vlib.lab) it records
  every delivery ``deliv = [tick, seq, sub_idx, kind, payload]`` and the terminal delivered to each
  subscription ``term[sub_idx] = [tick, seq, kind] | None``, so an oracle can order "terminal of the
  previous source" against "subscription of the next source" inside one virtual instant.
  A *leaky* source keeps pushing its timeline after it was unsubscribed and bypasses the library's
  AutoDetachObserver (it overrides ``subscribe``); it is the only way to present a *stale* inner
  notification to switch_latest in a single-threaded run.
* ``Sim`` / ``SimSrc`` / ``SimMerge`` / ``SimSwitch`` - an independent discrete-event reference (plain
  Python, own stable priority queue, no reactivex code) for merging and switching.
* comparison helpers and strategies shared by props/C11.py and props/C12.py.
"""
from __future__ import annotations

import heapq

from hypothesis import strategies as st

from reactivex import abc
from reactivex.disposable import CompositeDisposable, Disposable

from .core import HarnessError
from .lab import _Logged
from .values import Tagged, val

# ---------------------------------------------------------------------------------------
# traced sources (real side)


class _Cb:
    def __init__(self, on_next, on_error, on_completed):
        self.on_next = on_next or (lambda v: None)
        self.on_error = on_error or (lambda e: None)
        self.on_completed = on_completed or (lambda: None)


class TSource(_Logged):
    """spec: {"kind": "cold"|"sync"|"hot"|"leaky", "tl": timeline} or {"kind":..., "tls": [timeline, ...]}
    (scripted: the i-th subscription plays tls[min(i, len-1)]; hot sources use tls[0] at absolute times)."""

    def __init__(self, lab, spec, name, decode=None):
        tls = spec.get("tls") or [spec["tl"]]
        super().__init__(lab, tls[0], name)
        self.kind = spec["kind"]
        if self.kind not in ("cold", "sync", "hot", "leaky", "subject", "subsched"):
            raise HarnessError(f"source kind {self.kind}")
        self.tls = [[list(m) for m in tl] for tl in tls]
        self.decode = decode or val
        self.deliv = []
        self.term = []
        self.observers = []  # hot: [(idx, observer)]
        self.lost_sched = 0  # subsched: subscriptions that were not handed the subscription scheduler
        lab.sources.append(self)
        if self.kind == "hot":
            for t, kind, payload in self.tls[0]:
                lab.sched.schedule_absolute(lab.abs(t), self._mk_hot(kind, payload))
        if self.kind == "subject":
            from reactivex.subject import Subject

            self.subject = Subject()
            for t, kind, payload in self.tls[0]:
                lab.sched.schedule_absolute(lab.abs(t), self._mk_subject(kind, payload))

    # -- logging ------------------------------------------------------------------------
    def _open(self):
        idx = super()._open()
        self.term.append(None)
        return idx

    def _deliver(self, idx, observer, kind, payload):
        lab = self.lab
        lab.step()
        self.emitted += 1
        rec = [lab.now(), lab.next_seq(), idx, kind, payload]
        self.deliv.append(rec)
        if kind == "N":
            observer.on_next(self.decode(payload))
        elif kind == "E":
            if self.term[idx] is None:
                self.term[idx] = [rec[0], rec[1], "E"]
            observer.on_error(Tagged(payload))
        elif kind == "C":
            if self.term[idx] is None:
                self.term[idx] = [rec[0], rec[1], "C"]
            observer.on_completed()
        else:
            raise HarnessError(f"bad kind {kind}")

    # -- hot ----------------------------------------------------------------------------
    def _mk_hot(self, kind, payload):
        def action(s, st_=None):
            for ent in self.observers[:]:
                if ent in self.observers:
                    self._deliver(ent[0], ent[1], kind, payload)
            return Disposable()

        return action

    # -- subject-backed hot source -------------------------------------------------------
    def _mk_subject(self, kind, payload):
        def action(s, st_=None):
            self.lab.step()
            if kind == "N":
                self.subject.on_next(self.decode(payload))
            elif kind == "E":
                self.subject.on_error(Tagged(payload))
            else:
                self.subject.on_completed()
            return Disposable()

        return action

    def _subscribe_subject(self, idx, observer):
        def rec(kind):
            r = [self.lab.now(), self.lab.next_seq(), idx, kind, None]
            self.deliv.append(r)
            self.emitted += 1
            if kind != "N" and self.term[idx] is None:
                self.term[idx] = [r[0], r[1], kind]

        def on_next(v):
            rec("N")
            observer.on_next(v)

        def on_error(e):
            rec("E")
            observer.on_error(e)

        def on_completed():
            rec("C")
            observer.on_completed()

        inner = self.subject.subscribe(on_next, on_error, on_completed)

        def dispose():
            inner.dispose()
            self._close(idx)

        return Disposable(dispose)

    # -- subscribe ----------------------------------------------------------------------
    def subscribe(self, on_next=None, on_error=None, on_completed=None, *, scheduler=None):
        if self.kind != "leaky":
            return super().subscribe(on_next, on_error, on_completed, scheduler=scheduler)
        if isinstance(on_next, abc.ObserverBase) or (hasattr(on_next, "on_next") and callable(getattr(on_next, "on_next"))):
            obs = on_next
        else:
            obs = _Cb(on_next, on_error, on_completed)
        return self._subscribe_core(obs, scheduler)

    def _subscribe_core(self, observer, scheduler=None):
        idx = self._open()
        lab = self.lab
        if self.kind == "subject":
            return self._subscribe_subject(idx, observer)
        if self.kind == "hot":
            ent = (idx, observer)
            self.observers.append(ent)

            def dispose_hot():
                if ent in self.observers:
                    self.observers.remove(ent)
                self._close(idx)

            return Disposable(dispose_hot)

        tl = self.tls[min(idx, len(self.tls) - 1)]
        comp = CompositeDisposable()
        closed = [False]
        leaky = self.kind == "leaky"
        sched = lab.sched
        if self.kind == "subsched":
            # a time-based inner without a scheduler of its own (like reactivex.timer/interval/delay): it runs on the
            # scheduler handed down by subscribe(scheduler=...).  When the top-level subscription supplied the lab's
            # scheduler (lab.expect_sched) and the operator did not hand it down, the real thing would run on the
            # library default (real time): in virtual time nothing of it is ever seen.  Emulated by staying silent.
            if scheduler is lab.sched:
                pass
            elif scheduler is None and not getattr(lab, "expect_sched", False):
                pass
            else:
                self.lost_sched += 1
                return Disposable(lambda: self._close(idx))

        def mk(kind, payload):
            def action(s, st_=None):
                if leaky or not closed[0]:
                    self._deliver(idx, observer, kind, payload)
                return Disposable()

            return action

        def dispose():
            closed[0] = True
            self._close(idx)
            if not leaky:
                comp.dispose()

        for t, kind, payload in tl:
            if self.kind == "sync" and t == 0:
                if not closed[0]:
                    self._deliver(idx, observer, kind, payload)
            else:
                comp.add(sched.schedule_relative(lab.rel(t), mk(kind, payload)))
        return Disposable(dispose)


def all_subs(sources):
    """All subscriptions of the given TSources in global subscription order:
    dicts {src, k, sub, unsub, sub_seq, unsub_seq, term}."""
    out = []
    for si, s in enumerate(sources):
        for k, (iv, sq) in enumerate(zip(s.subs, s.sub_seq)):
            out.append({"src": si, "k": k, "sub": iv[0], "unsub": iv[1], "sub_seq": sq[0], "unsub_seq": sq[1], "term": s.term[k]})
    out.sort(key=lambda d: d["sub_seq"])
    return out


def max_overlap(subs):
    """Largest number of simultaneously *active* subscriptions at seq granularity; a subscription is active
    from its subscribe until its own terminal was delivered or it was unsubscribed, whichever is first."""
    evs = []
    for d in subs:
        ends = [x for x in (d["unsub_seq"], d["term"][1] if d["term"] else None) if x is not None]
        evs.append((d["sub_seq"], 1))
        if ends:
            evs.append((min(ends), -1))
    evs.sort()
    cur = best = 0
    for _, delta in evs:
        cur += delta
        best = max(best, cur)
    return best


# ---------------------------------------------------------------------------------------
# reference simulator (no reactivex code below this line)

POLICIES = ("fifo", "outer_first", "inner_first")


class Sim:
    """Discrete-event queue.  policy decides the order of *queued* events that share a tick:
    fifo = insertion order (what a FIFO-among-equals scheduler does); outer_first / inner_first = all outer
    events of the instant before / after all inner events (the alternative consistent tie orders)."""

    def __init__(self, policy="fifo"):
        self.q = []
        self.n = 0
        self.now = 0
        self.policy = policy

    def at(self, tick, fn, role="harness"):
        if self.policy == "fifo":
            cls = 0
        elif role == "harness":
            cls = 2
        elif self.policy == "outer_first":
            cls = 0 if role == "outer" else 1
        else:
            cls = 1 if role == "outer" else 0
        heapq.heappush(self.q, (tick, cls, self.n, fn))
        self.n += 1

    def run(self, limit=100000):
        k = 0
        while self.q:
            tick, _, _, fn = heapq.heappop(self.q)
            self.now = tick
            fn()
            k += 1
            if k > limit:
                raise HarnessError("sim runaway")


class _Handle:
    def __init__(self, src, k, now):
        self.src = src
        self.k = k
        self.sub = now
        self.end = None
        self.open = True
        self.term = None
        self.cb = None

    def close(self, now):
        if self.open:
            self.open = False
            self.end = now
            if self in self.src.live:
                self.src.live.remove(self)


class SimSrc:
    def __init__(self, sim, spec, role):
        self.sim = sim
        self.kind = spec["kind"]
        self.tls = spec.get("tls") or [spec["tl"]]
        self.role = role
        self.handles = []
        self.live = []
        self.terminated = None  # subject: (kind, payload) once its terminal dispatch has begun
        self.dispatching_terminal = False
        self.sub_during_own_terminal = 0
        self.late_subs = 0
        if self.kind in ("hot", "subject"):
            for t, k, p in self.tls[0]:
                sim.at(t, (lambda k=k, p=p: self._fire(k, p)), role)

    def _fire(self, k, p):
        if self.kind == "subject" and k != "N":
            # a subject is stopped before it dispatches its terminal; its observer list is emptied
            self.terminated = (k, p)
            snap = self.live[:]
            del self.live[:]
            self.dispatching_terminal = True
            for h in snap:
                if h.open:
                    self._push(h, k, p)
            self.dispatching_terminal = False
            return
        for h in self.live[:]:
            if h in self.live:
                self._push(h, k, p)

    def _push(self, h, k, p):
        if k != "N" and h.term is None:
            h.term = self.sim.now
        h.cb(k, p)
        if k != "N" and self.kind != "leaky":
            h.close(self.sim.now)  # a terminated subscription is released

    def subscribe(self, mk):
        """mk(handle) -> callback(kind, payload).  Synchronous sources deliver their t==0 events before returning."""
        sim = self.sim
        h = _Handle(self, len(self.handles), sim.now)
        self.handles.append(h)
        h.cb = mk(h)
        if self.kind == "subject" and self.terminated is not None:
            # late subscriber of a terminated subject: the terminal is delivered at once, inside subscribe
            if self.dispatching_terminal:
                self.sub_during_own_terminal += 1
            else:
                self.late_subs += 1
            self._push(h, self.terminated[0], self.terminated[1])
            return h
        if self.kind in ("hot", "subject"):
            self.live.append(h)
            return h
        tl = self.tls[min(h.k, len(self.tls) - 1)]
        leaky = self.kind == "leaky"
        if self.kind == "iter":
            # a lazy iterable handed to from_iterable: one scheduled action at the subscribe instant pulls it to the end
            def pull():
                for _, k, p in tl:
                    if h.open:
                        self._push(h, k, p)

            sim.at(sim.now, pull, self.role)
            return h
        for t, k, p in tl:
            if self.kind == "sync" and t == 0:
                if h.open:
                    self._push(h, k, p)
            else:
                sim.at(sim.now + t, (lambda k=k, p=p: (leaky or h.open) and self._push(h, k, p)), self.role)
        return h


class _SimOp:
    def __init__(self, sim, outer, inners, resolve):
        self.sim = sim
        self.outer = outer
        self.inners = inners
        self.resolve = resolve
        self.out = []  # [tick, "N", payload, arrival j, src idx]
        self.term = None  # [tick, kind, payload, origin]  origin = "outer" | arrival j | None
        self.done = False
        self.arrivals = []  # {"j","src","arr","sub","h","cut"}
        self.started = []  # arrival ids in subscription order
        self.outer_done = False
        self.oh = None
        self.raise_at = None  # the projection raises for the outer element with this arrival index
        self.raised_while_busy = False

    def start(self):
        def mk(h):
            self.oh = h
            return self.on_outer

        self.outer.subscribe(mk)
        if self.done:
            self.oh.close(self.sim.now)

    def terminate(self, kind, payload, origin=None):
        now = self.sim.now
        self.done = True
        self.term = [now, kind, payload, origin]
        if self.oh is not None:
            self.oh.close(now)
        for a in self.arrivals:
            if a["h"] is not None:
                a["h"].close(now)

    def arrive(self, payload):
        j = len(self.arrivals)
        a = {"j": j, "src": self.resolve(payload, j), "arr": self.sim.now, "sub": None, "h": None, "cut": None}
        self.arrivals.append(a)
        return a

    def start_inner(self, a, cb):
        a["sub"] = self.sim.now
        self.started.append(a["j"])

        def mk(h):
            a["h"] = h
            return cb

        self.inners[a["src"]].subscribe(mk)
        if self.done:
            a["h"].close(self.sim.now)


class SimMerge(_SimOp):
    """merge_all (maxc=None) / merge(max_concurrent=maxc) written from the property statement."""

    def __init__(self, sim, outer, inners, resolve, maxc=None):
        super().__init__(sim, outer, inners, resolve)
        self.maxc = maxc
        self.active = 0
        self.queue = []
        self.queued_ever = 0
        self.sync_dequeue_after_outer_done = 0  # dequeued inner completed inside its own subscribe, outer done, queue empty
        self.sync_dequeue = 0  # dequeued inner completed inside its own subscribe (any state)

    def on_outer(self, k, p):
        if self.done:
            return
        if k == "N" and self.raise_at is not None and len(self.arrivals) == self.raise_at:
            # the projection is applied when the outer element arrives (map, then merge): its exception is the
            # first error and terminates the output at this instant
            self.raised_while_busy = self.active > 0 if self.maxc is None else self.active >= self.maxc
            self.raised_any_active = self.active > 0
            self.terminate("E", f"inj:mapper:{self.raise_at}", "outer")
            return
        if k == "N":
            a = self.arrive(p)
            if self.maxc is None or self.active < self.maxc:
                self.active += 1
                self._go(a)
            else:
                self.queue.append(a)
                self.queued_ever += 1
        elif k == "E":
            self.terminate("E", p, "outer")
        else:
            self.outer_done = True
            if self.active == 0:
                self.terminate("C", None)

    def _go(self, a, dequeued=False):
        def cb(k, p):
            if self.done or not a["h"].open:
                return
            if k == "N":
                self.out.append([self.sim.now, "N", p, a["j"], a["src"]])
            elif k == "E":
                self.terminate("E", p, a["j"])
            else:
                a["h"].close(self.sim.now)
                if dequeued and a.get("starting"):
                    self.sync_dequeue += 1
                    if self.outer_done and not self.queue:
                        self.sync_dequeue_after_outer_done += 1
                if self.queue:
                    nxt = self.queue.pop(0)
                    nxt["dequeued"] = True
                    self._go(nxt, True)
                else:
                    self.active -= 1
                    if self.outer_done and self.active == 0:
                        self.terminate("C", None)

        a["starting"] = True
        self.start_inner(a, cb)
        a["starting"] = False


class SimSwitch(_SimOp):
    """switch_latest written from the property statement."""

    def __init__(self, sim, outer, inners, resolve):
        super().__init__(sim, outer, inners, resolve)
        self.latest = None
        self.has_latest = False
        self.stale_seen = 0  # notifications of stale inners that were (correctly) ignored
        self.stale_err = 0

    def on_outer(self, k, p):
        if self.done:
            return
        if k == "N":
            prev = self.arrivals[self.latest] if self.latest is not None else None
            a = self.arrive(p)
            if prev is not None and prev["h"] is not None and prev["h"].open:
                prev["h"].close(self.sim.now)
                prev["cut"] = a["j"]
            self.latest = a["j"]
            self.has_latest = True
            self._go(a)
        elif k == "E":
            self.terminate("E", p, "outer")
        else:
            self.outer_done = True
            if not self.has_latest:
                self.terminate("C", None)

    def _go(self, a):
        def cb(k, p):
            if self.done:
                return
            if self.latest != a["j"]:
                self.stale_seen += 1
                if k == "E":
                    self.stale_err += 1
                return
            if k == "N":
                self.out.append([self.sim.now, "N", p, a["j"], a["src"]])
            elif k == "E":
                self.terminate("E", p, a["j"])
            else:
                self.has_latest = False
                if self.outer_done:
                    self.terminate("C", None)

        self.start_inner(a, cb)


def simulate(case_outer, case_inners, resolve, t0, policy, mode, maxc=None, raise_at=None):
    """Run the reference.  mode: "merge" | "switch".  Sources are created in the same order as on the real side
    (inners, then outer), then the subscribe action is queued for t0."""
    sim = Sim(policy)
    inners = [SimSrc(sim, s, "inner") for s in case_inners]
    outer = SimSrc(sim, case_outer, "outer")
    if mode == "merge":
        op = SimMerge(sim, outer, inners, resolve, maxc)
    else:
        op = SimSwitch(sim, outer, inners, resolve)
    op.raise_at = raise_at
    sim.at(t0, op.start, "harness")
    sim.run()
    return op


# ---------------------------------------------------------------------------------------
# comparison helpers


def cpay(kind, payload):
    """canonical form (vlib.values.canon) of a simulated payload: elements are "n:<int>", errors are tags."""
    if kind == "N":
        return ["int", int(payload[2:])]
    if kind == "E":
        return ["exc", payload]
    return None


def split_real(events):
    """(elements [[tick, canon, seq]], terminal [tick, kind, canon, seq] | None, extra-after-terminal count)"""
    els, term, extra = [], None, 0
    for e in events:
        if term is not None:
            extra += 1
            continue
        if e[1] == "N":
            els.append([e[0], e[2], e[3]])
        else:
            term = [e[0], e[1], e[2], e[3]]
    return els, term, extra


def potential_at(op, inner_specs, tick):
    """Elements / errors that subscribed inner instances carry at `tick` (used for the tie tolerance at an error instant)."""
    els, errs = [], []
    for a in op.arrivals:
        if a["sub"] is None:
            continue
        spec = inner_specs[a["src"]]
        tl = (spec.get("tls") or [spec["tl"]])[0]
        off = 0 if spec["kind"] in ("hot", "subject") else a["sub"]
        for t, k, p in tl:
            if t + off == tick or (spec["kind"] == "subject" and k == "E" and t <= tick):
                if k == "N":
                    els.append(cpay("N", p))
                elif k == "E":
                    errs.append(cpay("E", p))
    return els, errs


def compare_union(op, inner_specs, events, src_of):
    """C11 trace comparison.  Returns None or (clause, message).
    Elements are compared per instant as a multiset, each inner's own order must be kept; the terminal must be
    of the expected kind at the expected tick; at an *error* instant elements of other inners are optional."""
    els, rterm, extra = split_real(events)
    term = op.term
    if term is None and rterm is not None:
        return ("spurious-terminal:" + rterm[1], f"no terminal expected, got {rterm[:3]}")
    if term is not None and rterm is None:
        return ("missing-terminal:" + term[1], f"expected {term[:3]}, got none")
    cut = None
    if term is not None:
        if term[1] != rterm[1]:
            return (f"terminal-kind:{term[1]}->{rterm[1]}", f"expected {term[:3]} got {rterm[:3]}")
        if term[0] != rterm[0]:
            return ("terminal-tick:" + term[1], f"expected {term[:3]} got {rterm[:3]}")
        if term[1] == "E":
            cut = term[0]
            pe, perr = potential_at(op, inner_specs, cut)
            if rterm[2] != cpay("E", term[2]) and rterm[2] not in perr:
                return ("error-identity", f"expected {term[:3]} got {rterm[:3]}")
    exp_by, real_by = {}, {}
    for t, _, p, j, s in op.out:
        exp_by.setdefault(t, []).append((cpay("N", p), j, s))
    for t, c, _ in els:
        real_by.setdefault(t, []).append(c)
    for t in sorted(set(exp_by) | set(real_by)):
        e = exp_by.get(t, [])
        r = real_by.get(t, [])
        ev = [x[0] for x in e]
        if sorted(map(repr, ev)) != sorted(map(repr, r)):
            if cut is not None and t == cut:
                origin = term[3]
                must = [x[0] for x in e if x[1] == origin]
                may = ev + potential_at(op, inner_specs, cut)[0]
                rr = list(r)
                ok = True
                for m in must:
                    if m in rr:
                        rr.remove(m)
                    else:
                        ok = False
                mm = list(may)
                for x in r:
                    if x in mm:
                        mm.remove(x)
                    else:
                        ok = False
                if ok:
                    continue
            missing = [x for x in ev if x not in r]
            extra_ = [x for x in r if x not in ev]
            what = "missing" if missing and not extra_ else ("extra" if extra_ and not missing else "differ")
            return (f"elements-{what}", f"tick {t}: expected {ev} got {r}")
        # per-inner order inside the instant
        for s in set(x[2] for x in e):
            if len(set(x[1] for x in e if x[2] == s)) > 1:
                continue  # two instances of the same cold/hot source at this instant: values coincide
            pe_ = [x[0] for x in e if x[2] == s]
            pr_ = [c for c in r if src_of(c) == s]
            if pe_ != pr_:
                return ("inner-order", f"tick {t} inner {s}: expected {pe_} got {pr_}")
    return None


def exact_trace(op):
    out = [[t, "N", cpay("N", p)] for t, _, p, _, _ in op.out]
    if op.term is not None:
        out.append([op.term[0], op.term[1], cpay(op.term[1], op.term[2])])
    return out


# ---------------------------------------------------------------------------------------
# strategies


def draw_timeline(draw, max_len, max_dt, values, terminals, errors, burst_one_in=0):
    """Plain drawing helper (no nested @composite: building composites per draw is slow).
    Conforming timeline [[t, kind, payload], ...]; values: list of names or None for placeholders."""
    n = draw(st.integers(0, max_len))
    burst = burst_one_in and draw(st.integers(0, burst_one_in - 1)) == 0
    t, out = 0, []
    for _ in range(n):
        t += 0 if burst else draw(st.integers(0, max_dt))
        out.append([t, "N", draw(st.sampled_from(values))])
    term = draw(st.sampled_from(terminals))
    if term is not None:
        t += 0 if burst else draw(st.integers(0, max_dt))
        out.append([t, term, draw(st.sampled_from(errors)) if term == "E" else None])
    return out


def _renumber(tl, base):
    out, k = [], 0
    for t, kind, p in tl:
        if kind == "N":
            out.append([t, "N", f"n:{base + k}"])
            k += 1
        else:
            out.append([t, kind, p])
    return out


_TERMS = ["C", "C", "C", "E", None]


@st.composite
def inner_specs(draw, max_inners=4, kinds=("cold", "cold", "sync", "hot"), max_len=4, max_dt=3):
    """List of inner source specs; inner i emits the distinct ints 100*i, 100*i+1, ... so that every element
    identifies its source.  Terminal: completion, error (tag e<i>) or none (never terminates)."""
    n = draw(st.sampled_from([x for x in (2, 3, 1, 4, 5) if x <= max_inners]))
    out = []
    for i in range(n):
        kind = draw(st.sampled_from(list(kinds)))
        tl = draw_timeline(draw, max_len, max_dt, ["i0"], _TERMS, [f"e{i}"])
        tl = _renumber(tl, 100 * i)
        if kind in ("hot", "subject"):
            off = draw(st.integers(0, 6))
            tl = [[t + off, k, p] for t, k, p in tl]
        if kind == "sync" and draw(st.booleans()):
            m = draw(st.integers(1, 5))  # make the head (possibly everything incl. the terminal) synchronous
            tl = _fix([[0 if i_ < m else t, kd, p] for i_, (t, kd, p) in enumerate(tl)])
        out.append({"kind": kind, "tl": tl})
    return out


def _fix(tl):
    out, last = [], 0
    for t, k, p in tl:
        last = max(last, t)
        out.append([last, k, p])
    return out


def draw_outer(draw, n_inners, max_len=5, max_dt=3, kinds=("cold", "cold", "sync", "hot")):
    """Outer source spec whose elements are "n:<k>" selectors (resolved modulo the number of inners)."""
    kind = draw(st.sampled_from(list(kinds)))
    sel = [f"n:{i}" for i in range(n_inners)]
    tl = draw_timeline(draw, max_len, max_dt, sel, _TERMS, ["eo"])
    if kind == "hot":
        off = draw(st.integers(0, 4))
        tl = [[t + off, k, p] for t, k, p in tl]
    if kind == "sync" and draw(st.booleans()):
        m = draw(st.integers(1, 3))
        tl = _fix([[0 if i < m else t, k, p] for i, (t, k, p) in enumerate(tl)])
    return {"kind": kind, "tl": tl}


@st.composite
def saturated_case(draw, max_c=3):
    """Shape for merge(max_concurrent) / concat_map: the limit is saturated by slow inners, further inners are queued,
    the outer completes early, and (most) queued inners complete synchronously inside their own subscribe."""
    maxc = draw(st.sampled_from([1, 2, 1, 2, 3][: 5 if max_c >= 3 else 4]))
    n_slow = draw(st.sampled_from([maxc, maxc, max(1, maxc - 1)]))
    n_q = draw(st.sampled_from([1, 2, 1, 3]))
    inners = []
    for i in range(n_slow):
        tl = draw_timeline(draw, 2, 3, ["i0"], ["C", "C", "C", "C", "E", None], [f"e{i}"])
        shift_ = draw(st.integers(1, 4))
        tl = [[t + shift_, k, p] for t, k, p in tl]
        inners.append({"kind": draw(st.sampled_from(["cold", "cold", "sync"])), "tl": _renumber(tl, 100 * i)})
    for j in range(n_q):
        i = n_slow + j
        style = draw(st.sampled_from(["sync0", "sync0", "sync0", "cold0", "any", "timed", "timed"]))
        if style == "timed":
            tl = draw_timeline(draw, 2, 2, ["i0"], ["C", "C", "C", "E"], [f"e{i}"])
            if not any(m[0] > 0 for m in tl):
                tl = [[t + 1, k, p] for t, k, p in tl]
            kind = "subsched"
        elif style == "any":
            tl = draw_timeline(draw, 2, 2, ["i0"], ["C", "C", "E", None], [f"e{i}"])
            kind = draw(st.sampled_from(["cold", "sync"]))
        else:
            n = draw(st.sampled_from([0, 1, 2]))
            tl = [[0, "N", "i0"] for _ in range(n)] + [[0, "C", None]]
            kind = "sync" if style == "sync0" else "cold"
        inners.append({"kind": kind, "tl": _renumber(tl, 100 * i)})
    order = list(range(n_slow)) + list(range(n_slow, n_slow + n_q))
    if draw(st.integers(0, 3)) == 0:
        order.append(draw(st.integers(0, len(inners) - 1)))
    if draw(st.integers(0, 3)) == 0:
        # one Subject-backed hot inner selected more often than the limit: the queued subscriptions are started from
        # inside that subject's own completion dispatch
        inners[0]["kind"] = "subject"
        extra = draw(st.sampled_from([1, 2]))
        order = [0] * (maxc + extra) + ([draw(st.integers(0, len(inners) - 1))] if draw(st.booleans()) else [])
    gap = draw(st.sampled_from([0, 0, 1]))
    t, tl = 0, []
    for i in order:
        tl.append([t, "N", f"n:{i}"])
        t += gap
    term = draw(st.sampled_from(["C", "C", "C", "C", None, "E"]))
    if term is not None:
        tl.append([t + draw(st.sampled_from([0, 0, 1])), term, "eo" if term == "E" else None])
    outer = {"kind": draw(st.sampled_from(["cold", "sync", "hot"])), "tl": tl}
    return {"maxc": maxc, "inners": inners, "outer": outer}


# ---------------------------------------------------------------------------------------
# second subscription of the same built observable (per-subscription state must be fresh)


def draw_second(draw, case):
    """In about a third of the cases ask for a second subscription of the SAME built observable: "after" = 1+d ticks
    after the first subscription's (reference) terminal, "overlap" = d ticks after the first subscribe.  Hot and subject-backed sources are
    turned into cold ones so that each subscription is independent and the reference applies per subscription."""
    if draw(st.integers(0, 2)) != 0:
        return case
    for spec in list(case["inners"]) + ([case["outer"]] if "outer" in case else []):
        if spec["kind"] in ("hot", "subject"):
            spec["kind"] = "cold"
    case["second"] = {"mode": draw(st.sampled_from(["after", "after", "overlap"])), "d": draw(st.integers(0, 3))}
    return case


def second_tick(sec, t0, first_terminal_tick):
    if sec["mode"] == "after" and first_terminal_tick is not None:
        return "after", first_terminal_tick + 1 + sec["d"]
    return "overlap", t0 + sec["d"]


class IterInner:
    """Placeholder for an inner that is not an observable but a lazy iterable built by the mapper (no subscription log)."""

    def __init__(self, spec, name):
        self.kind = "iter"
        self.name = name
        self.spec = spec
        self.subs, self.sub_seq, self.term, self.lost_sched = [], [], [], 0

    def make(self):
        def gen():
            for _, k, p in self.spec["tl"]:
                if k == "N":
                    yield val(p)
                elif k == "E":
                    raise Tagged(p)
                else:
                    return

        return gen()


def subs_cover(op, subs):
    """Every inner subscription the reference expects is present in the real log (multiset inclusion on (src, tick))."""
    real = [(d["src"], d["sub"]) for d in subs]
    for j in op.started:
        if op.inners[op.arrivals[j]["src"]].kind == "iter":
            continue
        key = (op.arrivals[j]["src"], op.arrivals[j]["sub"])
        if key in real:
            real.remove(key)
        else:
            return ("subs:inner-not-subscribed", f"expected inner subscription (src, tick) {key} not in the log")
    return None
