"""Engine FUZZ: coverage-guided tier (atheris / libFuzzer) that reuses a Check's strategy and oracle.

Parent side (called from a property's `run`):

    fuzz.run_campaign(pid, {"target": <check name>, "corpus": "empty"|"seeded", "runs": N, "seed": S}) -> Result

starts `python -m vlib.fuzz child ...` in a subprocess.  The child installs atheris' import
instrumentation for `reactivex`, imports props/<pid>.py, wraps the named generated Check as a Hypothesis
test (`given(check.strategy)`, body = the Check's own `run` through the runner's exception classification)
and hands `test.hypothesis.fuzz_one_input` to `atheris.Setup`; libFuzzer runs `-runs=N -seed=S` on a fresh
corpus directory under /var/tmp (optionally pre-seeded with the byte strings returned by the property
module's `fuzz_seeds(target)`), which the parent removes afterwards.  Counts (executions, cases that reached
the oracle, distinct non-trivial cases, oracle classes, libFuzzer edge coverage / corpus size) are folded
into the Result's classes; an oracle failure becomes a FAIL carrying the failing *case* (JSON, replayable
with `./check <pid> --replay` because it is a case of the named Check).

If atheris cannot be installed/imported the campaign is reported as `atheris:unavailable:<why>` in the
evidence classes and the Result is OK(nontrivial=False): the Hypothesis tier stays the deciding one.
"""
from __future__ import annotations

import argparse
import fcntl
import importlib
import json
import os
import re
import shutil
import subprocess
import sys
import tempfile
import time

VERIF = os.path.dirname(os.path.dirname(os.path.abspath(__file__)))
REPO = os.environ.get("VERIF_REPO", "/repo")
DEPS = os.path.join(VERIF, ".deps")
WHEELS = "/opt/veriftools/wheels"


def env_seed() -> int:
    return int(os.environ.get("VERIF_SEED", "1") or "1")


def scaled(n: int, floor: int = 2000) -> int:
    return max(floor, int(n * float(os.environ.get("VERIF_SCALE", "1"))))


# ---------------------------------------------------------------------------------------
# installation


def _try_import() -> tuple[bool, str]:
    """Import check in a subprocess (importing atheris in the runner process itself is not needed)."""
    code = "import sys; sys.path.append(%r); import atheris; print('ok')" % DEPS
    try:
        p = subprocess.run([sys.executable, "-c", code], capture_output=True, text=True, timeout=120)
    except Exception as e:  # noqa
        return False, f"import-check:{type(e).__name__}"
    if p.returncode == 0 and "ok" in p.stdout:
        return True, "ok"
    tail = (p.stderr or "").strip().splitlines()[-1:] or ["?"]
    return False, "import-failed:" + tail[0][:120]


def ensure_atheris() -> tuple[bool, str]:
    """Make `import atheris` work with DEPS on sys.path; install offline on first use. Never raises."""
    try:
        ok, why = _try_import()
        if ok:
            return True, "present"
        os.makedirs(os.path.join(VERIF, ".work"), exist_ok=True)
        with open(os.path.join(VERIF, ".work", "atheris-install.lock"), "w") as lock:
            fcntl.flock(lock, fcntl.LOCK_EX)
            try:
                ok, why = _try_import()  # another shard may have installed it meanwhile
                if ok:
                    return True, "present"
                cmd = [sys.executable, "-m", "pip", "install", "--no-index", "--find-links", WHEELS, "--target", DEPS, "atheris"]
                p = subprocess.run(cmd, capture_output=True, text=True, timeout=600)
                if p.returncode != 0:
                    tail = (p.stderr or p.stdout or "").strip().splitlines()[-1:] or ["?"]
                    return False, "pip-failed:" + tail[0][:120]
                ok, why = _try_import()
                return (True, "installed") if ok else (False, why)
            finally:
                fcntl.flock(lock, fcntl.LOCK_UN)
    except Exception as e:  # noqa
        return False, f"{type(e).__name__}:{str(e)[:100]}"


# ---------------------------------------------------------------------------------------
# parent


def _rep(label: str, n: int) -> list[str]:
    return [label] * max(0, int(n))


def run_campaign(pid: str, case: dict, timeout_s: int = 3000):
    from vlib.core import FAIL, OK, HarnessError, case_hash

    target, corpus, runs, seed = case["target"], case["corpus"], int(case["runs"]), int(case["seed"])
    tag = f"{target}:{corpus}"
    ok, why = ensure_atheris()
    if not ok:
        return OK(False, [f"atheris:unavailable:{why}", f"{tag}:NOT-RUN"])
    work = tempfile.mkdtemp(prefix=f"verif-fuzz-{pid}-", dir="/var/tmp")
    try:
        cdir = os.path.join(work, "corpus")
        os.makedirs(cdir)
        out = os.path.join(work, "stats.json")
        log = os.path.join(work, "libfuzzer.log")
        cmd = [sys.executable, "-u", "-m", "vlib.fuzz", "child", "--pid", pid, "--target", target, "--runs", str(runs), "--seed", str(seed), "--corpus", cdir, "--out", out]
        if corpus == "seeded":
            cmd.append("--seeded")
        env = dict(os.environ)
        env["PYTHONPATH"] = VERIF
        env["PYTHONHASHSEED"] = env.get("PYTHONHASHSEED", "0")
        env["PYTHONDONTWRITEBYTECODE"] = "1"
        t0 = time.time()
        with open(log, "w") as lf:
            try:
                p = subprocess.run(cmd, cwd=work, env=env, stdout=lf, stderr=subprocess.STDOUT, timeout=timeout_s)
                rc = p.returncode
            except subprocess.TimeoutExpired:
                rc = "timeout"
        wall = time.time() - t0
        with open(log, errors="replace") as lf:
            logtxt = lf.read()
        stats = None
        if os.path.exists(out):
            with open(out) as fh:
                stats = json.load(fh)
        if stats is None:
            if "ATHERIS-UNAVAILABLE" in logtxt:
                return OK(False, [f"atheris:unavailable:child-import-failed", f"{tag}:NOT-RUN"])
            raise HarnessError(f"fuzz child produced no stats (rc={rc}); log tail: {logtxt[-1500:]}")
        if stats.get("harness_error"):
            raise HarnessError(f"fuzz child: {stats['harness_error']}")
        cov = ft = corp = None
        for m in re.finditer(r"#\d+\s+\w+\s+cov: (\d+) ft: (\d+) corp: (\d+)", logtxt):
            cov, ft, corp = int(m.group(1)), int(m.group(2)), int(m.group(3))
        execs, valid = stats["execs"], stats["valid"]
        classes = [f"{tag}:campaigns-run"]
        classes += _rep(f"{tag}:executions(x1000)", round(execs / 1000))
        classes += _rep(f"{tag}:cases-reaching-oracle(x1000)", round(valid / 1000))
        classes += _rep(f"{tag}:distinct-nontrivial-cases(x1000)", round(stats["distinct_nontrivial"] / 1000))
        classes += _rep(f"{tag}:seed-inputs", stats.get("seeds", 0))
        classes += _rep(f"{tag}:seed-inputs-decoding-to-their-string", stats.get("seeds_roundtrip", 0))
        if cov is not None:
            classes += _rep(f"{tag}:libfuzzer-edges-covered", cov)
            classes += _rep(f"{tag}:libfuzzer-corpus-units", corp)
        else:
            classes.append(f"{tag}:libfuzzer-stats-not-parsed")
        for k, v in sorted(stats["classes"].items()):
            classes += _rep(f"{tag}:{k}(x1000)", round(v / 1000))
        if rc == "timeout":
            classes.append(f"{tag}:stopped-by-wall-budget")
        fail = stats.get("failure")
        if fail:
            vdir = os.path.join(VERIF, "violations", pid)
            os.makedirs(vdir, exist_ok=True)
            path = os.path.join(vdir, f"{target}-{case_hash(target, fail['case'])}.json")
            with open(path, "w") as fh:
                json.dump({"property": pid, "check": target, "case": fail["case"], "sig": fail["sig"], "msg": fail["msg"], "found_by": tag}, fh, indent=1, default=repr)
            return FAIL(fail["sig"], f"[found by {tag} after {execs} executions; replay={path}] {fail['msg']}", classes=classes)
        if rc not in (0, "timeout"):
            raise HarnessError(f"fuzz child exited rc={rc} without an oracle failure; log tail: {logtxt[-1500:]}")
        return OK(valid > 0, classes)
    finally:
        shutil.rmtree(work, ignore_errors=True)


# ---------------------------------------------------------------------------------------
# child


def _child(a) -> None:
    sys.path[:] = [p for p in sys.path if os.path.abspath(p or ".") != os.path.abspath(REPO)]
    sys.path.insert(0, REPO)
    if VERIF not in sys.path:
        sys.path.insert(1, VERIF)
    if DEPS not in sys.path:
        sys.path.append(DEPS)
    sys.dont_write_bytecode = True
    stats = {"execs": 0, "valid": 0, "distinct_nontrivial": 0, "classes": {}, "failure": None, "seeds": 0, "seeds_roundtrip": 0}
    hashes = set()

    def flush():
        tmp = a.out + ".tmp"
        with open(tmp, "w") as fh:
            json.dump(stats, fh, default=repr)
        os.replace(tmp, a.out)

    try:
        import atheris
    except Exception as e:  # noqa
        print(f"ATHERIS-UNAVAILABLE {type(e).__name__}: {e}", flush=True)
        os._exit(0)

    try:
        with atheris.instrument_imports(include=["reactivex"], enable_loader_override=False):
            import reactivex  # noqa
            import reactivex.operators  # noqa
            import reactivex.testing  # noqa
            import reactivex.testing.marbles  # noqa
            import reactivex.observable.marbles  # noqa

            mod = importlib.import_module(f"props.{a.pid}")
        f = os.path.abspath(reactivex.__file__)
        if not f.startswith(os.path.abspath(REPO) + os.sep):
            raise RuntimeError(f"reactivex imported from {f}, expected under {REPO}")

        from hypothesis import given, settings

        from vlib import runner
        from vlib.core import HarnessError, case_hash

        by_name = {c.name: c for c in mod.checks("thorough")}
        chk = by_name[a.target]
        if chk.strategy is None:
            raise RuntimeError(f"{a.target} is not a generated check")
        findings = runner._load_findings()
        last = {"case": None}

        class OracleFailure(Exception):
            pass

        def body(case):
            last["case"] = case
            res = runner.run_one(chk, case)
            stats["valid"] += 1
            for c in res.classes:
                stats["classes"][c] = stats["classes"].get(c, 0) + 1
            if res.nontrivial and not res.inconclusive:
                h = case_hash(chk.name, case)
                if h not in hashes:
                    hashes.add(h)
                    stats["distinct_nontrivial"] = len(hashes)
            if not res.ok and runner._known_match(findings, a.pid, chk.name, res) is None:
                stats["failure"] = {"case": case, "sig": res.sig, "msg": res.msg}
                flush()
                raise OracleFailure(res.sig)

        test = settings(database=None, deadline=None)(given(chk.strategy)(body))
        fuzz_one = test.hypothesis.fuzz_one_input

        seeds = []
        if a.seeded:
            seeds = list(mod.fuzz_seeds(a.target))
            for i, (buf, expect) in enumerate(seeds):
                with open(os.path.join(a.corpus, f"seed-{i:04d}"), "wb") as fh:
                    fh.write(buf)
                # self-test of the seed encoding: the buffer must decode to the lifted string
                last["case"] = None
                fuzz_one(buf)
                stats["seeds"] += 1
                if last["case"] is not None and expect(last["case"]):
                    stats["seeds_roundtrip"] += 1
            stats["valid"] = 0
            stats["classes"] = {}
            hashes.clear()
            stats["distinct_nontrivial"] = 0

        def target(data):
            stats["execs"] += 1
            n = stats["execs"]
            try:
                fuzz_one(data)
            finally:
                if n % 2000 == 0 or n >= a.runs - 3:
                    flush()

        flush()
        argv = [sys.argv[0], f"-runs={a.runs}", f"-seed={a.seed}", "-max_len=256", "-timeout=120", "-rss_limit_mb=4096", f"-artifact_prefix={a.corpus}/", "-print_final_stats=1", a.corpus]
        atheris.Setup(argv, target)
        atheris.Fuzz()
        flush()
    except SystemExit:
        flush()
        raise
    except BaseException as e:  # noqa
        import traceback

        if stats["failure"] is None:
            stats["harness_error"] = "".join(traceback.format_exception(e))[-3000:]
        flush()
        os._exit(1)


def main(argv=None):
    ap = argparse.ArgumentParser()
    ap.add_argument("mode", choices=["child"])
    ap.add_argument("--pid", required=True)
    ap.add_argument("--target", required=True)
    ap.add_argument("--runs", type=int, required=True)
    ap.add_argument("--seed", type=int, required=True)
    ap.add_argument("--corpus", required=True)
    ap.add_argument("--out", required=True)
    ap.add_argument("--seeded", action="store_true")
    a = ap.parse_args(argv)
    _child(a)


if __name__ == "__main__":
    main()
