"""Generic Engine-DET driver shared by props/C30.py and props/C34.py (owned by the C30/C34 builder).

A property module supplies
    build(case)            -> (thread callables, ctx)        called while det.patched(); FRESH objects every call
    judge(case, ctx, res)  -> None | (clause, detail)        interleaving-independent verdict on one run
    facts(case, ctx, res)  -> iterable of class labels       what the run exercised (for evidence / non-triviality)
and `drive()` executes case["sched"]:
    {"mode": "all", "K": k}                      every schedule with <= k preemptions (det.explore, fewest first)
    {"mode": "raw", "points": [[pos, tid]...]}   drawn change points resolved against the unpreempted run
    {"mode": "exact", "points": [[step, tid]...]}  a literal schedule (replays, minimal counterexamples)
Every failing (program, schedule) pair is executed again twice on fresh objects (det.run_checked) and must fail with
the same clause, otherwise HarnessError -- a verdict that depends on anything but (program, schedule) is a harness bug.
"""
from __future__ import annotations

import logging

from vlib import det
from vlib.core import FAIL, OK, SKIP, HarnessError

_rx_log = logging.getLogger("Rx")


class quiet_rx_log:
    """The trampoline logs 'Do not schedule blocking work!' for every timed entry; keep shard output clean."""

    def __enter__(self):
        self.lvl = _rx_log.level
        _rx_log.setLevel(logging.ERROR)

    def __exit__(self, *a):
        _rx_log.setLevel(self.lvl)
        return False


def now_us():
    """Fake clock in integer microseconds since det.EPOCH."""
    d = det.now() - det.EPOCH
    return (d.days * 86400 + d.seconds) * 1000000 + d.microseconds


def number(threads):
    """Pre-order numbering of the schedule operations ['s', *meta, body] of a program (list of operation lists, one
    per thread).  Returns (ids, meta): ids mirrors the program (per operation: (sid, ids of body) or None),
    meta[sid] = tuple(op[1:-1])."""
    meta = []

    def walk(ops):
        out = []
        for op in ops:
            if op[0] == "s":
                sid = len(meta)
                meta.append(tuple(op[1:-1]))
                out.append((sid, walk(op[-1])))
            else:
                out.append(None)
        return out

    return [walk(t) for t in threads], meta


def drive(case, build, judge, facts, nt_labels, kw, sig_suffix=""):
    """Run a DET case and return a vlib.core Result.  `nt_labels`: a run is non-trivial when one of its fact labels
    is in this set.  `kw`: keyword arguments for det.run_program (max_steps, reuse_threads, ...)."""
    sched = case["sched"]

    with quiet_rx_log(), det.patched() as env:

        def factory():
            env.clock.us = 0
            return build(case)

        def verdict(s, res, ctx):
            bad = judge(case, ctx, res)
            if bad is None:
                return None
            res2, ctx2 = det.run_checked(factory, s, **kw)
            bad2 = judge(case, ctx2, res2)
            if bad2 is None or bad2[0] != bad[0]:
                raise HarnessError(f"verdict not reproducible for schedule {s}: {bad} vs {bad2}")
            return bad[0], f"{bad[1]}; exact schedule={s}; {res2.describe()}; case={case}"

        if sched["mode"] == "all":
            runs = incomplete = 0
            seen = set()
            for s, res, ctx in det.explore(factory, K=sched["K"], **kw):
                if runs == 0:
                    res_b, _ = det.run_checked(factory, s, **kw)
                    if res_b.fingerprint() != res.fingerprint():
                        raise HarnessError("base run not deterministic")
                runs += 1
                if not res.complete and not res.deadlock:
                    incomplete += 1
                    continue
                v = verdict(s, res, ctx)
                if v:
                    return FAIL(f"{v[0]}{sig_suffix}", v[1], classes=["exhaustive"])
                seen.update(facts(case, ctx, res))
            if incomplete:
                return SKIP("budget")
            cl = ["exhaustive", f"K{sched['K']}"] + [f"runs>={b}" for b in (10, 100, 1000) if runs >= b]
            return OK(bool(seen & nt_labels), cl + sorted(seen))

        threads, ctx = factory()
        base = det.run_program(threads, **kw)
        if sched["mode"] == "raw":
            s = det.resolve_schedule(sched["points"], base)
        else:
            s = [list(p) for p in sched["points"]]
        if sum(p[0] for p in s) % 4 == 0:  # a deterministic quarter of the drawn cases also asserts run determinism
            res, ctx = det.run_checked(factory, s, **kw)
        else:
            threads, ctx = factory()
            res = det.run_program(threads, s, **kw)
        if not res.complete and not res.deadlock:
            return SKIP("budget")
        v = verdict(s, res, ctx)
        f = sorted(set(facts(case, ctx, res)))
        if v:
            return FAIL(f"{v[0]}{sig_suffix}", v[1], classes=f)
        return OK(bool(set(f) & nt_labels), f + [f"switches:{min(len(res.switches()), 6)}"])


def sched_strategy(K=3, max_tid=4):
    from hypothesis import strategies as st

    return st.builds(lambda pts: {"mode": "raw", "points": pts}, det.raw_schedules(K=K, max_pos=512, max_tid=max_tid))
