"""Generic Engine-DET driver shared by props/C30.py and props/C34.py (owned by the C30/C34 builder).

A property module supplies
    build(case)            -> (thread callables, ctx)        called while det.patched(); FRESH objects every call
    judge(case, ctx, res)  -> None | (clause, detail)        interleaving-independent verdict on one run
    facts(case, ctx, res)  -> iterable of class labels       what the run exercised (for evidence / non-triviality)
and `drive()` executes case["sched"]:
    {"mode": "all", "K": k}                      every schedule with <= k preemptions (det.explore, fewest first)
    {"mode": "raw", "points": [[pos, tid]...]}   drawn change points resolved against the unpreempted run
    {"mode": "exact", "points": [[step, tid]...]}  a literal schedule (replays, minimal counterexamples)
Every failing (program, schedule) pair is executed again twice on fresh objects (det.run_checked) and must fail with
the same clause, otherwise HarnessError -- a verdict that depends on anything but (program, schedule) is a harness bug.
"""
from __future__ import annotations

import logging
import signal
import sys
import threading

from vlib import det
from vlib.core import FAIL, OK, SKIP, HarnessError

_rx_log = logging.getLogger("Rx")


class quiet_rx_log:
    """The trampoline logs 'Do not schedule blocking work!' for every timed entry; keep shard output clean."""

    def __enter__(self):
        self.lvl = _rx_log.level
        _rx_log.setLevel(logging.ERROR)

    def __exit__(self, *a):
        _rx_log.setLevel(self.lvl)
        return False


class Wedged(BaseException):
    """Raised by the free-mode watchdog (BaseException so that library `except Exception` cannot swallow it)."""


class watchdog:
    """Wall-clock backstop for code run in the CALLING thread (DET free mode): after `seconds` a Wedged exception is
    raised in the main thread.  The cases take well under a millisecond; this only turns a library that never returns
    (or spins on a real timed wait while the fake clock stands still) into a verdict instead of a wedged shard.
    No-op when not in the main thread."""

    def __init__(self, seconds=20.0):
        self.seconds = seconds
        self.armed = False

    def _fire(self, signum, frame):
        raise Wedged(f"no return within {self.seconds}s of wall-clock time")

    def __enter__(self):
        if threading.current_thread() is threading.main_thread():
            self.prev = signal.signal(signal.SIGALRM, self._fire)
            signal.setitimer(signal.ITIMER_REAL, self.seconds)
            self.armed = True
        return self

    def __exit__(self, *a):
        if self.armed:
            signal.setitimer(signal.ITIMER_REAL, 0)
            signal.signal(signal.SIGALRM, self.prev)
        return False


def _import_time_objects():
    """[(owner class | module dict, name, object)]: instances of reactivex classes bound at class or module level in the
    reactivex.scheduler modules that (still) carry REAL threading primitives, i.e. were built at import, before
    det.patched().  det itself replaces bare class-level locks and the `_global` / `_local` singletons; anything else of
    that sort (e.g. a Trampoline stored as a class attribute) would make controlled threads block for real, or make a timed
    wait sleep in real time while the fake clock stands still -- a hang, not a verdict."""
    global _ito_cache
    nmods = sum(1 for n in sys.modules if n.startswith("reactivex.scheduler"))
    if _ito_cache is not None and _ito_cache[0] == nmods:  # import-time state is static: rescan only the known places
        cur = []
        for o, n in _ito_cache[1]:
            v = o.get(n) if isinstance(o, dict) else vars(o).get(n)
            if v is not None and det.audit_object(v):
                cur.append((o, n, v))
        return cur
    out = []

    def candidate(v):
        t = type(v)
        return not isinstance(v, type) and getattr(t, "__module__", "").startswith("reactivex") and not callable(v)

    for name, mod in sorted(sys.modules.items()):
        if mod is None or not name.startswith("reactivex.scheduler"):
            continue
        for an, av in list(vars(mod).items()):
            if candidate(av) and det.audit_object(av):
                out.append((vars(mod), an, av))
            elif isinstance(av, type) and getattr(av, "__module__", "").startswith("reactivex"):
                for cn, cv in list(vars(av).items()):
                    if candidate(cv) and det.audit_object(cv):
                        out.append((av, cn, cv))
    seen, uniq = set(), []
    for o, n, v in out:
        if (id(o), n) not in seen:
            seen.add((id(o), n))
            uniq.append((o, n, v))
    _ito_cache = (nmods, [(o, n) for o, n, _ in uniq])
    return uniq


_ito_cache = None


class patched:
    """det.patched() plus: import-time reactivex objects with real primitives (see _import_time_objects) are re-created
    with their zero-argument constructor while patched, so they carry cooperative primitives but stay exactly as shared
    as the library made them (a class-level object remains one object for all threads); restored on exit.  An object
    that cannot be re-created is a fast HarnessError."""

    def __init__(self, clock=None):
        self.inner = det.patched(clock=clock)
        self.undo = []

    def __enter__(self):
        env = self.inner.__enter__()
        try:
            for owner, name, obj in _import_time_objects():
                try:
                    new = type(obj)()
                except Exception as e:  # noqa: BLE001
                    raise HarnessError(f"import-time object {name}={obj!r} carries real locks and cannot be re-created: {e!r}") from e
                self.undo.append((owner, name, obj))
                if isinstance(owner, dict):
                    owner[name] = new
                else:
                    setattr(owner, name, new)
        except BaseException:
            self.__exit__(None, None, None)
            raise
        return env

    def __exit__(self, *exc):
        for owner, name, obj in reversed(self.undo):
            if isinstance(owner, dict):
                owner[name] = obj
            else:
                setattr(owner, name, obj)
        self.undo = []
        return self.inner.__exit__(*exc)


def audit(*objs):
    """HarnessError (fast, instead of a hang) if an object under test still carries real threading primitives."""
    for o in objs:
        bad = det.audit_object(o)
        if bad:
            raise HarnessError(f"object under test {o!r} carries real (uncooperative) primitives: {bad}")


def now_us():
    """Fake clock in integer microseconds since det.EPOCH."""
    d = det.now() - det.EPOCH
    return (d.days * 86400 + d.seconds) * 1000000 + d.microseconds


def number(threads):
    """Pre-order numbering of the schedule operations ['s', *meta, body] of a program (list of operation lists, one
    per thread).  Returns (ids, meta): ids mirrors the program (per operation: (sid, ids of body) or None),
    meta[sid] = tuple(op[1:-1])."""
    meta = []

    def walk(ops):
        out = []
        for op in ops:
            if op[0] == "s":
                sid = len(meta)
                meta.append(tuple(op[1:-1]))
                out.append((sid, walk(op[-1])))
            else:
                out.append(None)
        return out

    return [walk(t) for t in threads], meta


def drive(case, build, judge, facts, nt_labels, kw, sig_suffix=""):
    """Run a DET case and return a vlib.core Result.  `nt_labels`: a run is non-trivial when one of its fact labels
    is in this set.  `kw`: keyword arguments for det.run_program (max_steps, reuse_threads, ...)."""
    sched = case["sched"]

    with quiet_rx_log(), patched() as env:

        def factory():
            env.clock.us = 0
            return build(case)

        def verdict(s, res, ctx):
            bad = judge(case, ctx, res)
            if bad is None:
                return None
            res2, ctx2 = det.run_checked(factory, s, **kw)
            bad2 = judge(case, ctx2, res2)
            if bad2 is None or bad2[0] != bad[0]:
                raise HarnessError(f"verdict not reproducible for schedule {s}: {bad} vs {bad2}")
            return bad[0], f"{bad[1]}; exact schedule={s}; {res2.describe()}; case={case}"

        if sched["mode"] == "all":
            runs = incomplete = 0
            seen = set()
            for s, res, ctx in det.explore(factory, K=sched["K"], **kw):
                if runs == 0:
                    res_b, _ = det.run_checked(factory, s, **kw)
                    if res_b.fingerprint() != res.fingerprint():
                        raise HarnessError("base run not deterministic")
                runs += 1
                if not res.complete and not res.deadlock:
                    incomplete += 1
                    continue
                v = verdict(s, res, ctx)
                if v:
                    return FAIL(f"{v[0]}{sig_suffix}", v[1], classes=["exhaustive"])
                seen.update(facts(case, ctx, res))
            if incomplete:
                return SKIP("budget")
            cl = ["exhaustive", f"K{sched['K']}"] + [f"runs>={b}" for b in (10, 100, 1000) if runs >= b]
            return OK(bool(seen & nt_labels), cl + sorted(seen))

        threads, ctx = factory()
        base = det.run_program(threads, **kw)
        if sched["mode"] == "raw":
            s = det.resolve_schedule(sched["points"], base)
        else:
            s = [list(p) for p in sched["points"]]
        if sum(p[0] for p in s) % 4 == 0:  # a deterministic quarter of the drawn cases also asserts run determinism
            res, ctx = det.run_checked(factory, s, **kw)
        else:
            threads, ctx = factory()
            res = det.run_program(threads, s, **kw)
        if not res.complete and not res.deadlock:
            return SKIP("budget")
        v = verdict(s, res, ctx)
        f = sorted(set(facts(case, ctx, res)))
        if v:
            return FAIL(f"{v[0]}{sig_suffix}", v[1], classes=f)
        return OK(bool(set(f) & nt_labels), f + [f"switches:{min(len(res.switches()), 6)}"])


def sched_strategy(K=3, max_tid=4):
    from hypothesis import strategies as st

    return st.builds(lambda pts: {"mode": "raw", "points": pts}, det.raw_schedules(K=K, max_pos=512, max_tid=max_tid))
