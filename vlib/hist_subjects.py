"""Engine HIST: command histories against explicit models for the four subjects (C20-C23).

A *case* is JSON: {"cfg": {...}, "cmds": [cmd, ...]} with
    cfg   C20 {} | C21 {"init": value name} | C22 {"buf": int|None, "win": int|None, "clock": ...} | C23 {}
          C22 "clock": "test" (default; TestScheduler, integer ticks) | "hist" (HistoricalScheduler, datetime clock, 1 tick =
          1 ms, window passed as a timedelta) | "default" (no scheduler argument: the subject uses the current-thread
          trampoline, every command is drained before it returns, 'adv' is ignored and the window is None)
    cmd   ["sub", behaviour]        subscribe a fresh recording observer
          ["unsub", i]              dispose the subscription of observer #(i mod live) (mod all if none is live)
          ["next", value name]      subject.on_next(val(name))
          ["error", tag]            subject.on_error(Tagged(tag))
          ["completed"]             subject.on_completed()
          ["fail", tag]             subject.fail(Tagged(tag)): the public Observer.fail, which terminates a live subject with
                                    that error without going through on_error(); on a terminated or disposed subject it has
                                    no effect (its return value, and whether it raises after dispose, are not judged)
          ["dispose"]               subject.dispose()
          ["adv", dt]               (C22 only; ignored elsewhere) drain the virtual-time scheduler, then advance dt ticks
    behaviour {"k": "plain"} | {"k": "unsub_self", "at": k} | {"k": "unsub_other", "at": k, "who": j}
          | {"k": "sub_new", "at": k, "child": behaviour-without-sub_new}; optional "bare": true
          | {"k": "emit", "at": k, "what": ["next", value name] | ["completed"] | ["error", tag]}  (C22 only)
          | {"k": "raise", "at": k}  (C20/C21/C23 only)
          "at" = 0-based index of the observer's own callback inside which the action is performed.
          "raise" makes the handler raise Tagged("obs:<id>") after recording the notification.  Armed only on the three
          synchronous subjects, only for the FIRST observer with that behaviour and only when every other observer of the
          case is plain.  What the statement determines afterwards is checked (observers served before the raiser, every
          later notification to every subscribed observer, terminal/current value seen by later subscribers); what it does
          not determine is left open (whether the call re-raises, whether observers after the raiser in the same delivery
          still get that notification, what the raiser itself sees from then on).
          "emit" calls the subject re-entrantly from inside the handler.  It is armed only on a ReplaySubject (deliveries
          are queued per subscriber, so the outcome is determined: the emission joins the history at the current virtual
          time and is queued to every current subscriber after what is already queued for it), only for the FIRST
          observer with that behaviour, and only in cases without unsub_other/sub_new behaviours (with those, or with two
          emitters, the result would depend on the order in which a drain serves the subscribers); otherwise it acts as plain.
          "bare" (subscribe(on_next) without an on_error handler) is honoured only when the subject is already
          disposed, where it makes Observable.subscribe re-raise the DisposedException instead of routing it to on_error.

`run_history(kind, case)` executes every command on the real subject and on `Model`, and compares after EVERY step:
the per-observer received lists (type-tagged canonical values) and the exception raised by the call.

Observer identities: top-level observers are "0","1",... in creation order; the observer created by X's
sub_new action is "X.c".  All index resolution ("unsub i", "who j") is done from the *model* state at the start
of the current top-level command, so the real side and the model interpret a case identically and the
interpretation does not depend on the order in which a scheduler drains (C22).
"""
from __future__ import annotations

import itertools

from hypothesis import strategies as st

from reactivex.internal import DisposedException
from reactivex.scheduler import VirtualTimeScheduler
from reactivex.subject import AsyncSubject, BehaviorSubject, ReplaySubject, Subject

from .core import FAIL, OK, SKIP, HarnessError
from .lab import BudgetExceeded, Lab, SpinGuard
from .values import FALSY_NAMES, NAMES, Tagged, canon, val

KINDS = ("subject", "behavior", "replay", "async")
DISPOSED = ["E", ["disposed"]]
FALSY_CANON = [canon(val(n)) for n in FALSY_NAMES]


class EmptyErrors(Tagged):
    """An aggregate-style exception that reports zero collected errors: a perfectly valid Exception whose
    truth value is False (it defines __len__).  Used only by the dedicated 'falsy_error' checks."""

    def __len__(self):
        return 0


def make_error(tag):
    return EmptyErrors(tag) if tag == "falsy" else Tagged(tag)


def cn_exc(e):
    if isinstance(e, DisposedException):
        return ["disposed"]
    return canon(e)


def _idkey(oid):
    head, _, tail = oid.partition(".")
    return (int(head), tail)


def pick_victim(cands, oid, who):
    c = [x for x in cands if x != oid]
    return c[who % len(c)] if c else None


# =======================================================================================
# the model


class MObs:
    def __init__(self, oid, beh):
        self.oid = oid
        self.beh = beh
        self.received = []
        self.pending = []  # replay only: queued on the per-subscriber scheduled observer
        self.stopped = False  # unsubscribed, or received a terminal
        self.ncb = 0
        self.fuzzy = None  # (lower_len, upper_list): C22 victim of an in-drain unsubscribe by another observer
        self.ignored = False  # its handler raised: what it sees from then on is not determined by the statements
        self.in_subscribe = False  # its subscribe() call has not returned yet: nobody holds its subscription handle
        self.want_unsub = False


class Model:
    """Observer list + terminal state (+ current value | retained (time,value) history | last value) + disposed."""

    def __init__(self, kind, cfg):
        if kind not in KINDS:
            raise HarnessError(kind)
        self.kind = kind
        self.live = []  # MObs subscribed and not unsubscribed, in subscription order
        self.obs = {}  # oid -> MObs, every observer ever created
        self.terminal = None  # ["E", canon] | ["C"]
        self.disposed = False
        self.value = ["N", canon(val(cfg["init"]))] if kind == "behavior" else None
        self.has_value = False
        self.buf = cfg.get("buf") if kind == "replay" else None
        self.win = cfg.get("win") if kind == "replay" else None
        self.clock = cfg.get("clock", "test") if kind == "replay" else None
        self.auto_drain = self.clock == "default"  # current-thread trampoline: queued deliveries run before the call returns
        if self.auto_drain:
            self.win = None
        self.history = []  # replay: (tick, ["N", canon]) of every accepted on_next
        self.now = 0
        self.in_drain = False
        self.drain_start = {}
        self.cands = []
        self.n_top = 0
        self.raised_of = lambda oid: None
        self.emit_ok = False  # set by run_history from a pre-scan of the case
        self.emitter = None  # oid of the one armed re-entrant emitter
        self.raise_ok = False  # set by run_history from a pre-scan of the case
        self.raiser = None  # oid of the one armed raising observer
        self.abort = False  # a handler raised during the current command's delivery
        self.raised_tag = None
        self.any_raised = False
        self.mid_dispose = False  # C20 opt-in: an observer disposed the subject during the current command's delivery
        self.peek_len = lambda oid: None  # set by run_history: number of notifications the real observer has after the command
        # evidence
        self.flags = set()
        if self.clock not in (None, "test"):
            self.flags.add("clock:" + self.clock)
        self.n_next = 0

    # -- helpers ------------------------------------------------------------------------
    def retained(self):
        h = self.history
        if self.buf is not None:
            h = h[max(0, len(h) - self.buf) :] if self.buf > 0 else []
            if len(self.history) > self.buf:
                self.flags.add("trim-by-count")
        if self.win is not None:
            for t, _ in h:
                age = self.now - t
                if age == self.win:
                    self.flags.add("age==window")
                elif age == self.win + 1:
                    self.flags.add("age==window+1")
            h2 = [(t, n) for t, n in h if self.now - t <= self.win]
            if len(h2) < len(h):
                self.flags.add("trim-by-age")
            h = h2
        out = [n for _, n in h]
        if self.history and 0 < len(out) < len(self.history):
            self.flags.add("replay-strict-subset")
        if self.history and not out:
            self.flags.add("replay-empty")
        if out and len(out) == len(self.history):
            self.flags.add("replay-all")
        return out

    def _deliver(self, o, notif):
        if self.kind == "replay":
            o.pending.append(notif)
        else:
            self._receive(o, notif)

    def _receive(self, o, notif):
        o.received.append(notif)
        if self.any_raised and not self.abort and not o.ignored:
            self.flags.add("delivered-after-raise")  # in a later command than the one whose handler raised
        k = o.ncb
        o.ncb += 1
        if notif[0] != "N":
            o.stopped = True  # the auto-detaching observer is finished
            o.pending = []
            if o in self.live:
                self.live.remove(o)
        b = o.beh
        if b["k"] != "plain" and b["at"] == k:
            self._fire(o, notif)

    def _fire(self, o, notif):
        k = o.beh["k"]
        if k == "raise":
            if o.oid != self.raiser:
                return  # not armed: acts as a plain recorder
            self.flags.add("callback-raised:" + ("in-subscribe" if o.in_subscribe else ("next" if notif[0] == "N" else "terminal")))
            self.abort = True
            self.any_raised = True
            self.raised_tag = ["exc", "obs:" + o.oid]
            o.ignored = True
            return
        if k == "emit":
            if o.oid != self.emitter:
                return  # not armed: acts as a plain recorder
            w = o.beh["what"]
            self.flags.add("reentrant-emit:" + w[0])
            if not o.pending:
                self.flags.add("reentrant-emit-own-queue-empty")
            if len(self.live) >= 2:
                self.flags.add("reentrant-emit-broadcast>=2")
            if w[0] == "next":
                self.cmd_next(w[1])
            elif w[0] == "error":
                self.cmd_terminal(["E", ["exc", w[1]]])
            else:
                self.cmd_terminal(["C"])
            return
        self.flags.add("fired:" + k)
        if k == "dispose_subject":
            # opt-in behaviour (only histories(..., dispose_cb=True) / an alphabet naming it produce it): the observer
            # calls subject.dispose() from inside its callback, i.e. possibly in the middle of a broadcast
            if self.kind != "subject":
                raise HarnessError("dispose_subject behaviour is only modelled for kind 'subject'")
            self.flags.add("incb-dispose:" + ("in-subscribe" if o.in_subscribe else ("next" if notif[0] == "N" else "terminal")))
            self.disposed = True
            self.live = []
            self.mid_dispose = True
            return
        if k == "unsub_self":
            if notif[0] == "N":
                self.flags.add("incb-unsub-live")
            self._unsubscribe(o, by=o)
        elif k == "unsub_other":
            v = pick_victim(self.cands, o.oid, o.beh["who"])
            if v is not None:
                vo = self.obs[v]
                if not vo.stopped:
                    self.flags.add("incb-unsub-live")
                    self.flags.add("incb-unsub-other-live")
                self._unsubscribe(vo, by=o)
        elif k == "sub_new":
            self.flags.add("incb-sub:" + ("terminal" if notif[0] != "N" else "next"))
            child = MObs(o.oid + ".c", o.beh["child"])
            self.obs[child.oid] = child
            self._subscribe(child, False)

    def _unsubscribe(self, o, by=None):
        if o.in_subscribe:
            # asked from inside a callback that runs inside subscribe(): the subscription handle does not exist
            # yet, so (as with any SingleAssignmentDisposable-style caller) it is disposed when subscribe() returns
            o.want_unsub = True
            self.flags.add("unsub-inside-subscribe")
            return
        if self.in_drain and by is not None and by is not o and o.oid in self.drain_start:
            # C22: whether the victim had already been served in this drain depends on the scheduler's
            # interleaving of the per-subscriber queues, about which the property says nothing: the victim
            # must end up with a prefix of what it would have received, at least what it had before the drain.
            if o.fuzzy is None:
                lower = self.drain_start[o.oid]
                self._drain_one(o)
                o.fuzzy = (lower, list(o.received))
                self.flags.add("fuzzy-victim")
        o.stopped = True
        o.pending = []
        if o in self.live:
            self.live.remove(o)

    def _subscribe(self, o, bare, hold=False):
        o.in_subscribe = True
        try:
            return self._subscribe_inner(o, bare)
        finally:
            if not hold:
                self._end_subscribe(o)

    def _end_subscribe(self, o):
        o.in_subscribe = False
        if o.want_unsub:
            self._unsubscribe(o, by=o)

    def _subscribe_inner(self, o, bare):
        if self.disposed:
            o.stopped = True
            self.flags.add("sub-after-dispose")
            if self.raised_of(o.oid) == "disposed":
                return "disposed"  # raised to the caller: nothing delivered
            if bare:
                return "disposed"  # must raise: there is no on_error handler to route it to
            self._receive(o, DISPOSED)  # routed by Observable.subscribe to the observer's on_error
            return None
        if self.n_next:
            self.flags.add("sub-after-next")
        if self.terminal is not None:
            self.flags.add("late-sub-after-" + ("error" if self.terminal[0] == "E" else "completed"))
            if "terminated-by-fail" in self.flags:
                self.flags.add("late-sub-after-fail")
            if self.kind == "replay":
                o.pending = self.retained() + [self.terminal]
            elif self.kind == "async" and self.terminal[0] == "C" and self.has_value:
                self.flags.add("late-sub-gets-value")
                self._receive(o, self.value)
                if not o.stopped:
                    self._receive(o, self.terminal)
            else:
                self._receive(o, self.terminal)
            return None
        self.live.append(o)
        if self.kind == "behavior":
            if self.n_next:
                self.flags.add("sub-gets-pushed-value")
            self._receive(o, self.value)
        elif self.kind == "replay":
            o.pending = self.retained()
        return None

    def _drain_one(self, o):
        while o.pending and not o.stopped:
            self._receive(o, o.pending.pop(0))
        o.pending = []

    def drain(self):
        self.in_drain = True
        self.drain_start = {oid: len(o.received) for oid, o in self.obs.items() if not o.stopped}
        while True:
            todo = [o for o in sorted(self.obs.values(), key=lambda x: _idkey(x.oid)) if o.pending and not o.stopped]
            if not todo:
                break
            for o in todo:
                self._drain_one(o)
        self.in_drain = False
        self.drain_start = {}

    # -- top-level commands; each returns the expected exception (None | "disposed") ----
    def begin(self, raised_of):
        """Freeze the candidate list for in-callback 'unsub_other' actions of this command."""
        self.raised_of = raised_of
        self.abort = False
        self.raised_tag = None
        self.mid_dispose = False
        ok = ("plain", "unsub_self") if self.kind == "replay" else ("plain", "unsub_self", "unsub_other", "sub_new")
        self.cands = [o.oid for o in self.live if "." not in o.oid and o.beh["k"] in ok]

    def resolve_unsub(self, i):
        ids = [o.oid for o in self.live] or list(self.obs)
        ids.sort(key=_idkey)
        return ids[i % len(ids)] if ids else None

    def new_top(self, beh):
        o = MObs(str(self.n_top), beh)
        self.n_top += 1
        self.obs[o.oid] = o
        if beh["k"] == "emit" and self.emit_ok and self.emitter is None:
            self.emitter = o.oid
        if beh["k"] == "raise" and self.raise_ok and self.raiser is None:
            self.raiser = o.oid
        return o

    def cmd_sub(self, o, bare):
        if not self.auto_drain:
            return self._subscribe(o, bare)
        # default scheduler: the top-level subscribe() runs inside the trampoline it creates, so the replay (and
        # whatever the callbacks trigger) is delivered before subscribe() returns, i.e. before a handle exists
        try:
            return self._subscribe(o, bare, hold=True)
        finally:
            self.drain()
            self._end_subscribe(o)

    def cmd_unsub(self, oid):
        o = self.obs[oid]
        if not o.stopped and o in self.live:
            self.flags.add("top-unsub-live")
            if o.pending:
                self.flags.add("unsub-with-pending")
        self._unsubscribe(o)
        return None

    def cmd_next(self, name):
        if self.disposed:
            self.flags.add("emit-after-dispose")
            return "disposed"
        if self.terminal is not None:
            self.flags.add("emit-after-terminal")
            return None
        n = ["N", canon(val(name))]
        self.n_next += 1
        if self.kind == "behavior":
            self.value = n
        elif self.kind == "async":
            self.value, self.has_value = n, True
            return None
        elif self.kind == "replay":
            self.history.append((self.now, n))
        snapshot = list(self.live)
        if len(snapshot) >= 2:
            self.flags.add("broadcast>=2")
        for o in snapshot:
            if o.stopped:
                self.flags.add("skipped-unsubscribed-in-snapshot")
                continue
            if self.abort:
                self._optional(o, [n])
                continue
            if self.mid_dispose:
                self._after_dispose(o, [n])
                continue
            self._deliver(o, n)
        return None

    def _after_dispose(self, o, items):
        """An observer earlier in this snapshot disposed the subject ('dispose_subject' behaviour).  The statement fixes
        the recipients when the call is made, dispose() is documented as unsubscribing all observers: both 'the rest of
        the snapshot still gets THIS notification' and 'it gets nothing' are accepted -- decided by looking at whether
        the real observer received anything in this command -- but if something is delivered it must be this
        notification (the ordinary list comparison then applies), and the observer's own in-callback action follows."""
        if o.ignored:
            return
        have = self.peek_len(o.oid)
        if have is None:
            raise HarnessError("dispose_subject behaviour needs run_history's peek_len")
        self.flags.add("snapshot-rest-after-incb-dispose:" + ("next" if items[-1][0] == "N" else ("error" if items[-1][0] == "E" else "completed")))
        if have > len(o.received):
            self.flags.add("delivered-after-incb-dispose")
            for it in items:
                if o.stopped:
                    break
                self._receive(o, it)
        else:
            self.flags.add("skipped-after-incb-dispose")
            if items[-1][0] != "N":
                o.stopped = True

    def _optional(self, o, items):
        """A handler raised earlier in this delivery: whether the remaining observers of the snapshot still get the
        notification is not determined (the exception may abort the delivery); accept any prefix of `items`."""
        if o.ignored:
            return
        self.flags.add("optional-after-raise")
        o.fuzzy = (len(o.received), o.received + items)
        if items[-1][0] != "N":
            o.stopped = True  # the terminal happened; delivered to it or not, it gets nothing later

    def cmd_terminal(self, t):
        if self.disposed:
            self.flags.add("emit-after-dispose")
            return "disposed"
        if self.terminal is not None:
            self.flags.add("emit-after-terminal")
            return None
        self.terminal = t
        snapshot, self.live = list(self.live), []
        if snapshot:
            self.flags.add("terminal-with-observers")
        with_value = self.kind == "async" and t[0] == "C" and self.has_value
        if self.kind == "async":
            self.flags.add("async-" + ("error" if t[0] == "E" else ("completed-value" if with_value else "completed-empty")))
            if with_value and self.value[1] in FALSY_CANON:
                self.flags.add("async-falsy-last-value")
        for o in snapshot:
            if self.abort:
                if not o.stopped:
                    self._optional(o, ([self.value] if with_value else []) + [t])
                continue
            if self.mid_dispose:
                if o.stopped:
                    self.flags.add("skipped-unsubscribed-in-snapshot")
                else:
                    self._after_dispose(o, [t])
                continue
            if with_value and not o.stopped:
                self._receive(o, self.value)
            if o.stopped:
                self.flags.add("skipped-unsubscribed-in-snapshot")
                continue
            self._deliver(o, t)
        return None

    def cmd_dispose(self):
        self.disposed = True
        self.live = []
        return None

    def cmd_adv(self, dt):
        self.drain()
        self.now += dt
        return None


# =======================================================================================
# the real side


class Rec:
    """Recording observer with an optional in-callback action."""

    def __init__(self, drv, oid, beh):
        self.drv = drv
        self.oid = oid
        self.beh = beh
        self.received = []
        self.ncb = 0
        self.handle = None
        self.want_dispose = False
        self.unsub_done = False
        self.after_unsub = []
        self.sub_raised = None

    def _cb(self, notif):
        if self.unsub_done:
            self.after_unsub.append(notif)
        self.received.append(notif)
        k = self.ncb
        self.ncb += 1
        b = self.beh
        if b["k"] != "plain" and b["at"] == k:
            self.drv.fire(self)

    def on_next(self, v):
        self._cb(["N", canon(v)])

    def on_error(self, e):
        self._cb(["E", cn_exc(e)])

    def on_completed(self):
        self._cb(["C"])

    def unsubscribe(self):
        if self.handle is None:
            self.want_dispose = True  # inside subscribe(): dispose as soon as the handle exists
            return
        self.handle.dispose()
        self.unsub_done = True


class Driver:
    def __init__(self, kind, cfg):
        self.kind = kind
        self.lab = None
        if kind == "subject":
            self.subject = Subject()
        elif kind == "behavior":
            self.subject = BehaviorSubject(val(cfg["init"]))
        elif kind == "async":
            self.subject = AsyncSubject()
        elif kind == "replay":
            clock = cfg.get("clock", "test")
            if clock == "default":
                self.subject = ReplaySubject(cfg.get("buf"))
            elif clock == "hist":
                self.lab = Lab("hist", tick_s=0.001)
                win = cfg.get("win")
                self.subject = ReplaySubject(cfg.get("buf"), None if win is None else self.lab.rel(win), self.lab.sched)
            else:
                self.lab = Lab()
                self.subject = ReplaySubject(cfg.get("buf"), cfg.get("win"), self.lab.sched)
        self.recs = {}
        self.cands = []
        self.emitter = None
        self.raiser = None

    def subscribe(self, rec, bare):
        self.recs[rec.oid] = rec
        kw = {"scheduler": self.lab.sched} if self.lab is not None else {}
        try:
            if bare:
                h = self.subject.subscribe(rec.on_next, **kw)
            else:
                h = self.subject.subscribe(rec, **kw)
        except DisposedException:
            rec.sub_raised = "disposed"
            return "disposed"
        except Tagged as e:  # an armed raising observer; nothing else raises Tagged
            return ["exc", e.tag]
        rec.handle = h
        if rec.want_dispose:
            h.dispose()
            rec.unsub_done = True
        return None

    def fire(self, rec):
        b = rec.beh
        k = b["k"]
        if k == "unsub_self":
            rec.unsubscribe()
        elif k == "unsub_other":
            v = pick_victim(self.cands, rec.oid, b["who"])
            if v is not None:
                self.recs[v].unsubscribe()
        elif k == "sub_new":
            self.subscribe(Rec(self, rec.oid + ".c", b["child"]), False)
        elif k == "dispose_subject":
            self.subject.dispose()
        elif k == "raise":
            if rec.oid == self.raiser:
                raise Tagged("obs:" + rec.oid)
        elif k == "emit":
            if rec.oid != self.emitter:
                return
            w = b["what"]
            try:
                if w[0] == "next":
                    self.subject.on_next(val(w[1]))
                elif w[0] == "error":
                    self.subject.on_error(make_error(w[1]))
                else:
                    self.subject.on_completed()
            except DisposedException:
                pass  # pending deliveries after dispose(): emitting raises, as the model expects (no effect)

    def drain(self, dt):
        """Run everything due at the current instant, then move the clock by dt ticks."""
        lab = self.lab
        lab._same = 0  # the library's spin counter is per run; so is ours
        lab._last_clock = None
        if dt > 0:
            return lab.run(until=lab.now() + dt)
        try:
            # TestScheduler.start() would also create/subscribe/dispose a dummy observable at 100/200/1000;
            # the plain virtual-time start() just drains the queue, and nothing here is scheduled in the future.
            VirtualTimeScheduler.start(lab.sched)
        except SpinGuard:
            lab.inconclusive = "spin"
        except BudgetExceeded:
            lab.inconclusive = "budget"
        except RecursionError:
            lab.inconclusive = "recursion"
        except Exception as e:  # noqa
            lab.escaped = e
            lab.sched._is_enabled = False
        return lab.inconclusive


def _call(f, *a):
    try:
        f(*a)
    except DisposedException:
        return "disposed"
    except Tagged as e:  # an armed raising observer's exception reaching the caller
        return ["exc", e.tag]
    return None


def run_history(kind, case, check_observers_state=False):
    cfg, cmds = case.get("cfg") or {}, case["cmds"]
    drv = Driver(kind, cfg)
    m = Model(kind, cfg)
    subj = drv.subject
    raised_of = lambda oid: drv.recs[oid].sub_raised if oid in drv.recs else None  # noqa
    m.peek_len = lambda oid: len(drv.recs[oid].received) if oid in drv.recs else 0  # noqa  (used only after an in-callback dispose)
    m.raise_ok = kind != "replay" and all(c[1]["k"] in ("plain", "raise") for c in cmds if c[0] == "sub")
    m.emit_ok = kind == "replay" and not any(c[0] == "sub" and c[1]["k"] in ("unsub_other", "sub_new") for c in cmds)
    steps = list(cmds)
    if kind == "replay" and not m.auto_drain:
        steps = steps + [["adv", 0]]  # final drain
    for idx, cmd in enumerate(steps):
        op = cmd[0]
        m.begin(raised_of)
        drv.cands = list(m.cands)
        exp = got = None
        if op == "sub":
            beh = cmd[1]
            bare = bool(beh.get("bare")) and m.disposed
            mo = m.new_top(beh)
            drv.emitter = m.emitter
            drv.raiser = m.raiser
            got = drv.subscribe(Rec(drv, mo.oid, beh), bare)
            exp = m.cmd_sub(mo, bare)
        elif op == "unsub":
            oid = m.resolve_unsub(cmd[1])
            if oid is None:
                continue
            got = _call(drv.recs[oid].unsubscribe)
            exp = m.cmd_unsub(oid)
        elif op == "next":
            got = _call(subj.on_next, val(cmd[1]))
            exp = m.cmd_next(cmd[1])
        elif op == "error":
            got = _call(subj.on_error, make_error(cmd[1]))
            exp = m.cmd_terminal(["E", ["exc", cmd[1]]])
        elif op == "fail":
            got = _call(subj.fail, make_error(cmd[1]))
            if m.disposed or m.terminal is not None:
                m.flags.add("fail-no-effect")
                exp = got if got == "disposed" and m.disposed else None  # no effect; raising after dispose is allowed too
            else:
                m.flags.add("terminated-by-fail")
                exp = m.cmd_terminal(["E", ["exc", cmd[1]]])
        elif op == "completed":
            got = _call(subj.on_completed)
            exp = m.cmd_terminal(["C"])
        elif op == "dispose":
            got = _call(subj.dispose)
            exp = m.cmd_dispose()
        elif op == "adv":
            if kind != "replay" or m.auto_drain:
                continue
            inc = drv.drain(cmd[1])
            if inc:
                return SKIP(inc)
            if drv.lab.escaped is not None:
                e = drv.lab.escaped
                return FAIL(f"{kind}:escaped-from-scheduler:{type(e).__name__}", f"step {idx} {cmd}: {e!r} case={case}", classes=_classes(m))
            exp = m.cmd_adv(cmd[1])
        else:
            raise HarnessError(f"unknown command {cmd}")
        if m.auto_drain and op != "sub":
            m.drain()
        # ---- compare after every step -------------------------------------------------
        if got != exp and not (m.raised_tag is not None and exp is None and got == m.raised_tag):
            return FAIL(f"{kind}:exception:{op}", f"step {idx} {cmd}: call raised {got}, model expects {exp}; case={case}", classes=_classes(m))
        if set(drv.recs) != set(m.obs):
            return FAIL(f"{kind}:observer-set", f"step {idx} {cmd}: real {sorted(drv.recs)} model {sorted(m.obs)} case={case}", classes=_classes(m))
        for oid, mo in m.obs.items():
            r = drv.recs[oid]
            if mo.ignored:
                continue
            if r.after_unsub:
                return FAIL(
                    f"{kind}:delivered-after-unsubscribe:{op}",
                    f"step {idx} {cmd}: observer {oid} ({mo.beh}) got {r.after_unsub} after its dispose() returned; case={case}",
                    classes=_classes(m),
                )
            if mo.fuzzy is not None:
                lower, upper = mo.fuzzy
                if not (lower <= len(r.received) and r.received == upper[: len(r.received)]):
                    return FAIL(
                        f"{kind}:received-fuzzy:{op}",
                        f"step {idx} {cmd}: observer {oid} got {r.received}, expected a prefix (>= {lower} items) of {upper}; case={case}",
                        classes=_classes(m),
                    )
                mo.received = list(r.received)
                mo.fuzzy = None
            elif r.received != mo.received:
                what = _diff_kind(mo.received, r.received)
                sig = f"{kind}:received:{what}:{op}:{mo.beh['k']}"
                if m.terminal == ["E", ["exc", "falsy"]]:
                    sig = f"{kind}:received-after-falsy-error"  # one bucket: truth-tested exception field
                return FAIL(
                    sig,
                    f"step {idx} {cmd}: observer {oid} ({mo.beh}) expected {mo.received} got {r.received}; case={case}",
                    classes=_classes(m),
                )
        if check_observers_state and not m.disposed and not m.any_raised:
            n_real = len(subj.observers)
            if n_real != len(m.live):
                return FAIL(
                    f"{kind}:observers-state:{op}",
                    f"step {idx} {cmd}: subject.observers holds {n_real} entries, {len(m.live)} observers are subscribed; case={case}",
                    classes=_classes(m),
                )
    return OK(nontrivial(kind, m.flags), _classes(m))


def _diff_kind(exp, got):
    if len(got) < len(exp) and got == exp[: len(got)]:
        return "missing"
    if len(got) > len(exp) and exp == got[: len(exp)]:
        return "extra"
    return "different"


def _classes(m):
    return sorted(m.flags)


def nontrivial(kind, flags):
    f = flags
    if "delivered-after-raise" in f:
        return True
    if "delivered-after-incb-dispose" in f or "skipped-after-incb-dispose" in f:
        return True  # only produced by the opt-in 'dispose_subject' behaviour
    if kind == "subject":
        return "sub-after-next" in f and ("incb-unsub-live" in f or "late-sub-after-error" in f or "late-sub-after-completed" in f)
    if kind == "behavior":
        return "sub-gets-pushed-value" in f and ("incb-unsub-live" in f or "incb-sub:next" in f or "late-sub-after-error" in f or "late-sub-after-completed" in f)
    if kind == "replay":
        return "replay-strict-subset" in f or any(x.startswith("reentrant-emit:") for x in f)
    if kind == "async":
        return ("async-completed-value" in f or "async-error" in f) and "terminal-with-observers" in f and (
            "late-sub-after-error" in f or "late-sub-after-completed" in f
        )
    raise HarnessError(kind)


# =======================================================================================
# generators (JSON-able)

_AT = st.integers(0, 4)
_PLAIN = st.just({"k": "plain"})
_US = st.builds(lambda a: {"k": "unsub_self", "at": a}, _AT)
_UO = st.builds(lambda a, w: {"k": "unsub_other", "at": a, "who": w}, _AT, st.integers(0, 5))
_LEAF = st.one_of(_PLAIN, _US, _UO)
_SN = st.builds(lambda a, c: {"k": "sub_new", "at": a, "child": c}, _AT, _LEAF)


def _with_bare(b):
    return st.builds(lambda d, bare: {**d, "bare": True} if bare else d, b, st.sampled_from([False, False, False, True]))


BEHAVIOURS = _with_bare(st.one_of(_PLAIN, _US, _UO, _SN))

_EMIT_WHAT = st.one_of(
    st.builds(lambda v: ["next", v], st.sampled_from(NAMES)),
    st.builds(lambda v: ["next", v], st.sampled_from(NAMES)),
    st.just(["completed"]),
    st.just(["error", "e2"]),
)
_EM = st.builds(lambda a, w: {"k": "emit", "at": a, "what": w}, st.integers(0, 3), _EMIT_WHAT)
REENTRANT_BEHAVIOURS = st.one_of(_PLAIN, _US, _EM)
_RS = st.builds(lambda a: {"k": "raise", "at": a}, st.sampled_from([0, 0, 0, 1, 1, 2, 3]))
_SUB = st.builds(lambda b: ["sub", b], BEHAVIOURS)
_SUB_RAISE = st.builds(lambda b: ["sub", b], st.one_of(_PLAIN, _RS))
_SUB_RE = st.builds(lambda b: ["sub", b], REENTRANT_BEHAVIOURS)
_DS = st.builds(lambda a: {"k": "dispose_subject", "at": a}, st.sampled_from([0, 0, 0, 1, 1, 2, 3]))
_SUB_DS = st.builds(lambda b: ["sub", b], st.one_of(_PLAIN, _PLAIN, _US, _UO, _SN, _DS, _DS))
_UNSUB = st.builds(lambda i: ["unsub", i], st.integers(0, 7))
_NEXT = st.builds(lambda v: ["next", v], st.sampled_from(NAMES))
_ERROR = st.builds(lambda t: ["error", t], st.sampled_from(["e1", "e2"]))
_COMPLETED = st.just(["completed"])
_FAIL = st.builds(lambda t: ["fail", t], st.sampled_from(["e1", "e2"]))
_DISPOSE = st.just(["dispose"])
_ADV = st.builds(lambda d: ["adv", d], st.sampled_from([0, 0, 1, 1, 1, 2, 3, 5]))


_BY_OP = {"sub": _SUB, "next": _NEXT, "unsub": _UNSUB, "adv": _ADV, "error": _ERROR, "completed": _COMPLETED, "dispose": _DISPOSE, "fail": _FAIL}


def commands(kind, active_only=False, falsy_error=False, reentrant=False, raising=False, dispose_cb=False):
    """One command.  Weights are realised with sampled_from over a repeated op list (one_of would de-duplicate
    repeated branches).  Terminals and, even more, dispose are rare: what follows them only exercises the
    late-subscriber / DisposedException clauses."""
    ops = ["next"] * 8 + ["sub"] * 5 + ["unsub"] * 2
    if kind == "replay":
        ops = ops + ["adv"] * 6
    ops = ops * 2
    if not active_only:
        ops = ops + ["error"] * 2 + ["completed"] * (4 if kind == "async" else 2) + ["dispose"] + ["fail"]
        if falsy_error:
            ops = ops + ["falsy"] * 8
    by_op = dict(_BY_OP, falsy=st.just(["error", "falsy"]))
    if reentrant:
        by_op["sub"] = _SUB_RE
    if raising:
        by_op["sub"] = _SUB_RAISE
    if dispose_cb:
        by_op["sub"] = _SUB_DS
        if not active_only:
            ops = ops + ["error"] * 4 + ["completed"] * 2 + ["fail"]

    @st.composite
    def _cmd(draw):
        return draw(by_op[draw(st.sampled_from(ops))])

    return _cmd()


def configs(kind):
    if kind == "behavior":
        return st.fixed_dictionaries({"init": st.sampled_from(["none"] * 3 + NAMES)})
    if kind == "replay":
        return st.fixed_dictionaries(
            {"buf": st.sampled_from([None, 0, 1, 2, 3, 4, 5]), "win": st.sampled_from([None, None, 0, 1, 2, 3, 5, 8, 50])}
        )
    return st.just({})


def _sized(elem, mins, hi):
    """Lists with a mix of minimum sizes (Hypothesis' default average list length is ~6 whatever max_size is);
    shrinks towards the first (smallest) branch."""
    return st.one_of(*[st.lists(elem, min_size=lo, max_size=hi) for lo in mins if lo <= hi])


def histories(kind, max_cmds, falsy_error=False, reentrant=False, clock=None, raising=False, dispose_cb=False):
    """An 'active' prefix (no terminal, no dispose) followed by a general tail; one JSON list, shrinks as one value."""
    half = max(1, max_cmds // 2)
    cmds = st.builds(
        lambda a, b: a + b,
        _sized(commands(kind, active_only=True, reentrant=reentrant, raising=raising, dispose_cb=dispose_cb), (0, 6, 14, 30, 50), half),
        _sized(commands(kind, falsy_error=falsy_error, reentrant=reentrant, raising=raising, dispose_cb=dispose_cb), (1, 5, 12, 25), half),
    )
    cfgs = configs(kind)
    if clock is not None:
        cfgs = cfgs.map(lambda c: dict(c, clock=clock))
    return st.fixed_dictionaries({"cfg": cfgs, "cmds": cmds})


def enumerate_histories(alphabet, cfgs, max_len):
    """Every command sequence of length 1..max_len over `alphabet`, for every cfg (exhaustive small scope)."""
    for cfg in cfgs:
        for n in range(1, max_len + 1):
            for seq in itertools.product(alphabet, repeat=n):
                yield {"cfg": cfg, "cmds": [list(c) if not isinstance(c, list) else c for c in seq]}


# =======================================================================================
# Engine DET: one subscriber racing one emitter (two controlled threads, all schedules with <= K preemptions)


def _fresh_thread_state():
    """Observable.subscribe goes through CurrentThreadScheduler.singleton(), which caches one scheduler per OS
    thread (class-level WeakKeyDictionary) and one trampoline per OS thread (threading.local).  With pooled worker
    threads the first run would take the creation path and later runs the cached one (different step numbering for
    the same schedule); re-creating both containers per run keeps runs comparable.  Same recipe as vlib/conc.py."""
    import weakref

    from reactivex.scheduler import currentthreadscheduler as cts

    cts.CurrentThreadScheduler._global = weakref.WeakKeyDictionary()
    cts.CurrentThreadSchedulerSingleton._local = type(cts.CurrentThreadSchedulerSingleton._local)()


class RaceRec:
    def __init__(self):
        self.received = []
        self.handle = None
        self.sub_raised = False

    def _cb(self, n):
        from . import det

        self.received.append(n)
        det.yield_point("cb")  # let the other thread run while this callback is in flight

    def on_next(self, v):
        self._cb(["N", canon(v)])

    def on_error(self, e):
        self._cb(["E", cn_exc(e)])

    def on_completed(self):
        self._cb(["C"])


def _apply_model(m, c):
    try:
        _apply_model_inner(m, c)
    finally:
        if m.auto_drain:
            m.drain()


def _apply_model_inner(m, c):
    if c[0] == "next":
        m.cmd_next(c[1])
    elif c[0] == "error":
        m.cmd_terminal(["E", ["exc", c[1]]])
    elif c[0] == "completed":
        m.cmd_terminal(["C"])
    elif c[0] == "dispose":
        m.cmd_dispose()
    else:
        raise HarnessError(f"race emit {c}")


def _emit_real(subj, c):
    if c[0] == "next":
        subj.on_next(val(c[1]))
    elif c[0] == "error":
        subj.on_error(make_error(c[1]))
    elif c[0] == "dispose":
        subj.dispose()
    else:
        subj.on_completed()


def race_allowed(kind, cfg, emits, pre, before=()):
    """Linearizability oracle: the racing subscriber must see what the sequential model gives it when its subscribe
    is placed at SOME position j of the emitter's call sequence (0 = before every call ... n = after all of them);
    observers subscribed before the race must see exactly the sequential outcome."""
    allowed, pre_exp = [], None
    for j in range(len(emits) + 1):
        m = Model(kind, cfg)
        m.begin(lambda oid: None)
        pres = [m.new_top({"k": "plain"}) for _ in range(pre)]
        for c in before:
            _apply_model(m, c)
        for p in pres:
            m.cmd_sub(p, False)
        for c in emits[:j]:
            _apply_model(m, c)
        o = m.new_top({"k": "plain"})
        m.cmd_sub(o, False)
        for c in emits[j:]:
            _apply_model(m, c)
        allowed.append(o.received)
        pre_exp = [p.received for p in pres]
    return allowed, pre_exp


def det_race(case):
    """case = {"kind", "cfg", "emits": [["next", v] | ["error", tag] | ["completed"] | ["dispose"], ...], "pre": n, "K": k,
    "first": "sub" | "emit", "before": [emits made before the race]}.  kind "replay" needs cfg {"clock": "default"}.
    Thread A: subject.subscribe(recorder)  ||  thread B: the emits in order, on a subject created after patching."""
    from . import det

    kind, cfg, emits, pre, K = case["kind"], case.get("cfg") or {}, case["emits"], case.get("pre", 0), case["K"]
    before = case.get("before") or []
    if kind == "replay" and cfg.get("clock") != "default":
        raise HarnessError("det_race: ReplaySubject only with the default (current-thread) scheduler")
    allowed, pre_exp = race_allowed(kind, cfg, emits, pre, before)
    kw = dict(max_steps=6000, reuse_threads=True, wall_timeout=30.0)

    def factory():
        _fresh_thread_state()
        drv = Driver(kind, cfg)  # subject created while patched: its RLock is cooperative
        subj = drv.subject
        for c in before:
            _emit_real(subj, c)
        pres = [RaceRec() for _ in range(pre)]
        for p in pres:
            p.handle = subj.subscribe(p)
        rec = RaceRec()

        def ta():
            try:
                rec.handle = subj.subscribe(rec)
            except DisposedException:
                rec.sub_raised = True  # allowed exactly where the model routes DisposedException to on_error

        def tb():
            for c in emits:
                _emit_real(subj, c)

        # thread 0 runs first in the unpreempted schedule; with K preemptions the *other* thread is the one that can
        # be interrupted at most K-1 times, so both orders are needed to cut into either call with K=1
        return ([tb, ta] if case.get("first") == "emit" else [ta, tb]), {"rec": rec, "pres": pres, "subj": subj}

    def judge(res, ctx):
        if res.deadlock:
            return "deadlock", f"{res.deadlock}"
        if res.exceptions:
            return "exception", f"{res.exceptions}"
        got = ctx["rec"].received
        if ctx["rec"].sub_raised:
            # subscribe() raised DisposedException: only legal for a subscribe placed after dispose(), with nothing delivered
            if got or [DISPOSED] not in allowed:
                return "subscriber-not-linearizable", f"subscribe raised DisposedException and the subscriber received {got}; allowed {allowed}"
            got = [DISPOSED]
            ctx["rec"].received = got
        if got not in allowed:
            return "subscriber-not-linearizable", f"racing subscriber received {got}; allowed (by subscribe position) {allowed}"
        for i, p in enumerate(ctx["pres"]):
            if p.received != pre_exp[i]:
                return "earlier-subscriber", f"observer subscribed before the race received {p.received}, expected {pre_exp[i]}"
        return None

    seen = set()
    runs = overlap = incomplete = 0
    with det.patched():
        for s, res, ctx in det.explore(factory, K=K, **kw):
            if runs == 0:
                res_b, _ = det.run_checked(factory, s, **kw)  # determinism of the base run
                if res_b.fingerprint() != res.fingerprint():
                    raise HarnessError("det_race: base run not deterministic")
            runs += 1
            overlap += res.overlapped()
            if not res.complete and not res.deadlock:
                incomplete += 1
                continue
            bad = judge(res, ctx)
            if bad is not None:
                res2, ctx2 = det.run_checked(factory, s, **kw)
                bad2 = judge(res2, ctx2)
                if bad2 is None or bad2[0] != bad[0]:
                    raise HarnessError(f"det_race: verdict not reproducible for schedule {s}: {bad} vs {bad2}")
                return FAIL(f"{kind}:race:{bad[0]}", f"{bad[1]}; schedule={s}; {res2.describe()}; case={case}", classes=["det"])
            seen.add(allowed.index(ctx["rec"].received))
    if incomplete:
        return SKIP("budget")
    distinct = len({repr(a) for a in allowed})
    cl = ["det", f"K{K}", f"outcomes-observed:{len(seen)}/{distinct}"] + [f"runs>={b}" for b in (10, 100, 1000) if runs >= b]
    return OK(overlap > 0 and (len(seen) >= 2 or distinct == 1), cl)
