"""Value domain V and the canonical (type-tagged, JSON-able) form used to compare traces.

Cases carry value *names* (strings); `val(name)` builds a fresh Python object.
canon() never equates 0 / 0.0 / False or 1 / 1.0 / True and never relies on
Notification.__eq__ (which compares str()).
"""
from __future__ import annotations

from datetime import datetime, timedelta

from hypothesis import strategies as st

FALSY = {
    "none": lambda: None,
    "i0": lambda: 0,
    "f0": lambda: 0.0,
    "false": lambda: False,
    "s": lambda: "",
    "t": lambda: (),
    "l": lambda: [],
    "d": lambda: {},
}
TRUTHY = {
    "i1": lambda: 1,
    "i2": lambda: 2,
    "i3": lambda: 3,
    "i-1": lambda: -1,
    "f2.5": lambda: 2.5,
    "true": lambda: True,
    "sa": lambda: "a",
    "sb": lambda: "b",
    "t1": lambda: (1,),
    "l1": lambda: [1],
    "dk": lambda: {"k": 1},
}
ALL = {**FALSY, **TRUTHY}
NAMES = list(ALL)
FALSY_NAMES = list(FALSY)
TRUTHY_NAMES = list(TRUTHY)
HASHABLE_NAMES = [n for n in NAMES if n not in ("l", "d", "l1", "dk")]
NUMERIC_NAMES = ["i0", "f0", "false", "i1", "i2", "i3", "i-1", "f2.5", "true"]
INT_NAMES = ["i0", "i1", "i2", "i3", "i-1"]


def val(name):
    """Decode a value name (or a nested ["tuple", ...] form) to a Python object."""
    if isinstance(name, str):
        if name in ALL:
            return ALL[name]()
        if name.startswith("n:"):  # arbitrary int
            return int(name[2:])
        if name.startswith("x:"):  # arbitrary string
            return name[2:]
        raise KeyError(name)
    if isinstance(name, int):
        return name
    raise KeyError(name)


def value_names(names=NAMES):
    return st.sampled_from(list(names))


class Tagged(Exception):
    """An exception with a stable, JSON-able identity."""

    def __init__(self, tag):
        super().__init__(tag)
        self.tag = tag

    def __repr__(self):
        return f"Tagged({self.tag!r})"


def canon(x, obs_id=None):
    """Type-tagged canonical JSON-able form."""
    from reactivex import Observable
    from reactivex.notification import Notification, OnCompleted, OnError, OnNext

    if x is None:
        return ["none"]
    if isinstance(x, bool):
        return ["bool", x]
    if isinstance(x, int):
        return ["int", x]
    if isinstance(x, float):
        return ["float", repr(x)]
    if isinstance(x, str):
        return ["str", x]
    if isinstance(x, bytes):
        return ["bytes", x.hex()]
    if isinstance(x, Tagged):
        return ["exc", x.tag]
    if isinstance(x, BaseException):
        return ["exc", type(x).__name__, str(x)]
    if isinstance(x, OnNext):
        return ["N", canon(x.value, obs_id)]
    if isinstance(x, OnError):
        return ["E", canon(x.exception, obs_id)]
    if isinstance(x, OnCompleted):
        return ["C"]
    if isinstance(x, tuple):
        tname = type(x).__name__
        body = [canon(e, obs_id) for e in x]
        return ["tuple", body] if tname == "tuple" else ["ntuple:" + tname, body]
    if isinstance(x, list):
        return ["list", [canon(e, obs_id) for e in x]]
    if isinstance(x, dict):
        items = [[canon(k, obs_id), canon(v, obs_id)] for k, v in x.items()]
        items.sort(key=repr)
        return ["dict", items]
    if isinstance(x, (set, frozenset)):
        return ["set", sorted((canon(e, obs_id) for e in x), key=repr)]
    if isinstance(x, datetime):
        return ["dt", x.isoformat()]
    if isinstance(x, timedelta):
        return ["td", x.total_seconds()]
    import dataclasses

    if dataclasses.is_dataclass(x) and not isinstance(x, type):
        return ["dc:" + type(x).__name__, [[f.name, canon(getattr(x, f.name), obs_id)] for f in dataclasses.fields(x)]]
    if isinstance(x, Observable):
        if obs_id is not None:
            return ["obs", obs_id(x)]
        return ["obs", type(x).__name__]
    # Timestamp / TimeInterval are NamedTuples (handled above); anything else by type+repr
    return ["obj", type(x).__name__, repr(x)]


def stable_hash(c) -> int:
    """Deterministic small hash of a canonical form (independent of PYTHONHASHSEED)."""
    import zlib

    return zlib.crc32(repr(c).encode())
