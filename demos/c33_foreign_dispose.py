"""Demonstration for C33: dispose() from a foreign thread while stage 2 of
AsyncIOThreadSafeScheduler.schedule_relative is executing on the running loop must still be effective.
Usage: python demos/c33_foreign_dispose.py [repo_path]   exit 1 = action ran after dispose() returned."""
import asyncio, os, sys, threading, time
sys.path.insert(0, sys.argv[1] if len(sys.argv) > 1 else os.environ.get("VERIF_REPO", "/repo"))
from reactivex.scheduler.eventloop import AsyncIOThreadSafeScheduler

loop = asyncio.new_event_loop()
in_stage2 = threading.Event(); dispose_returned = threading.Event()
orig_call_later = loop.call_later
def call_later(delay, cb, *a):
    in_stage2.set()                      # stage 2 is executing on the loop thread ...
    dispose_returned.wait(0.5)           # ... while the foreign thread disposes
    return orig_call_later(delay, cb, *a)
loop.call_later = call_later
t = threading.Thread(target=loop.run_forever, daemon=True); t.start()
while not loop.is_running(): time.sleep(0.001)
ran = []
sch = AsyncIOThreadSafeScheduler(loop)
d = sch.schedule_relative(0.05, lambda s, st: ran.append(time.time()))
assert in_stage2.wait(2)
d.dispose(); t_disp = time.time(); dispose_returned.set()
time.sleep(0.3)
loop.call_soon_threadsafe(loop.stop); t.join(2)
if ran:
    print("VIOLATED: action ran %.3fs after dispose() returned" % (ran[0] - t_disp)); sys.exit(1)
print("ok: action did not run after dispose() returned")
